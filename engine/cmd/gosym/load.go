package main

import (
	"fmt"
	"os"
	"path/filepath"
	"sort"
	"strings"

	"golang.org/x/tools/go/packages"
	"golang.org/x/tools/go/ssa"
	"golang.org/x/tools/go/ssa/ssautil"
)

// repoDir is /repo. GOSYM_REPO overrides it for the author's own experiments against a scratch
// worktree (seeded-change testing while /repo is in use); no registered command sets it.
var repoDir = func() string {
	if d := os.Getenv("GOSYM_REPO"); d != "" {
		return d
	}
	return "/repo"
}()

const (
	modulePath = "github.com/FollowTheProcess/spok"
	overlayDir = "zzverif" // virtual directory inside /repo that receives /verif/harness
)

func verifDir() string {
	if d := os.Getenv("VERIF_DIR"); d != "" {
		return d
	}
	exe, err := os.Executable()
	if err == nil {
		// /verif/bin/gosym -> /verif
		return filepath.Dir(filepath.Dir(exe))
	}
	return "/verif"
}

// overlayFiles maps virtual files under /repo/zzverif to the files of /verif/harness.
func overlayFiles() (map[string]string, error) {
	out := map[string]string{}
	root := filepath.Join(verifDir(), "harness")
	err := filepath.Walk(root, func(p string, info os.FileInfo, err error) error {
		if err != nil {
			return err
		}
		if info.IsDir() || !strings.HasSuffix(p, ".go") {
			return nil
		}
		rel, _ := filepath.Rel(root, p)
		// files named inpkg__<dir>__name.go are injected into an existing package directory of /repo
		base := filepath.Base(rel)
		if strings.HasPrefix(base, "inpkg__") {
			parts := strings.Split(strings.TrimSuffix(base, ".go"), "__")
			if len(parts) >= 3 {
				dir := strings.ReplaceAll(parts[1], "--", "/")
				out[filepath.Join(repoDir, dir, "zz_verif_"+parts[2]+".go")] = p
				return nil
			}
		}
		out[filepath.Join(repoDir, overlayDir, rel)] = p
		return nil
	})
	return out, err
}

type loaded struct {
	prog *ssa.Program
	pkgs []*ssa.Package
	all  []*packages.Package
	load float64
}

// loadProgram loads the harness packages (and through them /repo's current working tree)
// and builds SSA for the whole closure.
func loadProgram(patterns []string, nativeTags bool) (*loaded, error) {
	files, err := overlayFiles()
	if err != nil {
		return nil, err
	}
	ov := map[string][]byte{}
	for virt, real := range files {
		data, err := os.ReadFile(real)
		if err != nil {
			return nil, err
		}
		ov[virt] = data
	}
	cfg := &packages.Config{
		Mode:    packages.LoadAllSyntax,
		Dir:     repoDir,
		Overlay: ov,
		Env:     append(os.Environ(), "GOFLAGS=-mod=mod", "GOPROXY=off", "GOSUMDB=off", "GOTOOLCHAIN=local", "CGO_ENABLED=0"),
		BuildFlags: []string{"-tags=verif"},
	}
	initial, err := packages.Load(cfg, patterns...)
	if err != nil {
		return nil, err
	}
	var errs []string
	packages.Visit(initial, nil, func(p *packages.Package) {
		for _, e := range p.Errors {
			errs = append(errs, e.Error())
		}
	})
	if len(errs) > 0 {
		sort.Strings(errs)
		if len(errs) > 20 {
			errs = errs[:20]
		}
		return nil, fmt.Errorf("package errors:\n%s", strings.Join(errs, "\n"))
	}
	prog, pkgs := ssautil.AllPackages(initial, ssa.InstantiateGenerics|ssa.SanityCheckFunctions&0)
	prog.Build()
	return &loaded{prog: prog, pkgs: pkgs, all: initial}, nil
}
