package main

// Checks of the command-line layer (C13, C09, C19, C20, C12).

import (
	"fmt"
	"strconv"

	"gosym/interp"
)

var cliAssumptions = []string{
	"the shell: mvdan.cc/sh is replaced at its API boundary (syntax.Parser.Parse, interp.New and its options, Runner.Run) by a model in which a command's output and exit status are chosen by the harness; spok's own shell.IntegratedRunner.Run runs for real",
	"mvdan's expand.ListEnviron (sort + de-duplicate of KEY=VALUE pairs) runs from its real source",
	"text/template: {{.NAME}} substitution model (missing key in a map[string]string gives the empty string); the template engine itself is outside",
	"file system, environment, cwd and HOME: in-memory model (harness/vfs); logger: no-op; colour and message printing: pass-through",
	"engine trusted base: go/ssa, the forked interpreter, its SMT encoding, z3 5.1.0",
}

func cliJob(fn string, params map[string]string) jobSpec {
	name := fn + "["
	for _, k := range []string{"vars", "ambient", "size", "shape"} {
		if v, ok := params[k]; ok {
			name += k + "=" + v + " "
		}
	}
	return jobSpec{Name: name + "]", Func: fn, Params: params, Opts: interp.Options{Budget: 20_000_000}}
}

func init() {
	p := func(kv ...string) map[string]string {
		m := map[string]string{}
		for i := 0; i+1 < len(kv); i += 2 {
			m[kv[i]] = kv[i+1]
		}
		return m
	}
	register(&checkDef{
		ID: "C13", Pkg: "clih", Level: "other", NativeCheck: true, UseStubs: true, OnlyPrefix: "C13/",
		Explanation: "Bounded symbolic execution, in three harnesses. (1) Environment: the real shell.IntegratedRunner.Run and mvdan's real expand.ListEnviron with 1-3 spokfile variables (symbolic values) and 1-2 ambient KEY=VALUE pairs whose names are chosen among the variables' names and an unrelated one (symbolic values): the environment handed to the interpreter must give every spokfile variable its spokfile value. " +
			"(2) Values and templates: real parser, file.New, task.New/expandVars and SpokFile.Run on a spokfile with symbolic string values and literal command text: Vars holds the text between the quotes, join(...) the absolute cleaned join, and the command reaching the shell has earlier variables substituted and all other text unchanged (given the template model). " +
			"(3) exec: real builtins.execute with a symbolic standard output and status: the value is the reference trim of the output and a non-zero status is an error.",
		Bounds: func(tier string) string {
			if tier == "thorough" {
				return "environment: 1-3 variables x 1-2 ambient pairs x value length 1-2; values/templates: value holes of 1-3 bytes; exec: standard output of 0-4 ASCII bytes, status 0..2"
			}
			return "environment: 1-2 variables x 1 ambient pair x value length 1 (and 2 variables x 2 ambient pairs); values/templates: value holes of 1-2 bytes; exec: standard output of 0-3 ASCII bytes, status 0..2"
		},
		Outside:      []string{"the template engine and the shell themselves; .env loading (godotenv) is not exercised: a .env file only adds to the ambient environment, which is symbolic here", "values are printable ASCII without quotes, braces, '$', '=' (so that the native replay can print them through the real shell)"},
		Assumptions:  cliAssumptions,
		EndSignature: map[string]string{"crash": "C13/panic", "budget": "C13/non-termination", "deadlock": "C13/deadlock"},
		Jobs: func(tier string, seed int64) []jobSpec {
			out := []jobSpec{
				cliJob("EnvPrecedence", p("vars", "1", "ambient", "1", "size", "1")),
				cliJob("EnvPrecedence", p("vars", "2", "ambient", "1", "size", "1")),
				cliJob("EnvPrecedence", p("vars", "2", "ambient", "2", "size", "1")),
				cliJob("Vars", p("size", "1")), cliJob("Vars", p("size", "2")),
			}
			for n := 0; n <= 3; n++ {
				out = append(out, cliJob("Exec", p("size", strconv.Itoa(n))))
			}
			if tier == "thorough" {
				out = append(out,
					cliJob("EnvPrecedence", p("vars", "3", "ambient", "2", "size", "1")),
					cliJob("EnvPrecedence", p("vars", "2", "ambient", "2", "size", "2")),
					cliJob("Vars", p("size", "3")), cliJob("Exec", p("size", "4")))
			}
			return out
		},
	})
	_ = fmt.Sprintf
}
