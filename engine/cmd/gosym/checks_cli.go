package main

// Checks of the command-line layer (C13, C09, C19, C20, C12).

import (
	"fmt"
	"strconv"

	"gosym/interp"
)

var cliAssumptions = []string{
	"the shell: mvdan.cc/sh is replaced at its API boundary (syntax.Parser.Parse, interp.New and its options, Runner.Run) by a model in which a command's output and exit status are chosen by the harness; spok's own shell.IntegratedRunner.Run runs for real",
	"mvdan's expand.ListEnviron (sort + de-duplicate of KEY=VALUE pairs) runs from its real source",
	"text/template: {{.NAME}} substitution model (missing key in a map[string]string gives the empty string); the template engine itself is outside",
	"file system, environment, cwd and HOME: in-memory model (harness/vfs); logger: no-op; colour and message printing: pass-through",
	"engine trusted base: go/ssa, the forked interpreter, its SMT encoding, z3 5.1.0",
}

func cliJob(fn string, params map[string]string) jobSpec {
	name := fn + "["
	for _, k := range []string{"vars", "ambient", "size", "shape"} {
		if v, ok := params[k]; ok {
			name += k + "=" + v + " "
		}
	}
	return jobSpec{Name: name + "]", Func: fn, Params: params, Opts: interp.Options{Budget: 20_000_000}}
}

func init() {
	p := func(kv ...string) map[string]string {
		m := map[string]string{}
		for i := 0; i+1 < len(kv); i += 2 {
			m[kv[i]] = kv[i+1]
		}
		return m
	}
	register(&checkDef{
		ID: "C13", Pkg: "clih", Level: "other", NativeCheck: true, UseStubs: true, OnlyPrefix: "C13/",
		Explanation: "Bounded symbolic execution, in three harnesses. (1) Environment: the real shell.IntegratedRunner.Run and mvdan's real expand.ListEnviron with 1-3 spokfile variables (symbolic values) and 1-2 ambient KEY=VALUE pairs whose names are chosen among the variables' names and an unrelated one (symbolic values): the environment handed to the interpreter must give every spokfile variable its spokfile value. " +
			"(2) Values and templates: real parser, file.New, task.New/expandVars and SpokFile.Run on a spokfile with symbolic string values and literal command text: Vars holds the text between the quotes, join(...) the absolute cleaned join, and the command reaching the shell has earlier variables substituted and all other text unchanged (given the template model). " +
			"(3) exec: real builtins.execute with a symbolic standard output and status: the value is the reference trim of the output and a non-zero status is an error.",
		Bounds: func(tier string) string {
			if tier == "thorough" {
				return "environment: 1-3 variables x 1-2 ambient pairs x value length 1-2; values/templates: value holes of 1-3 bytes; exec: standard output of 0-4 ASCII bytes, status 0..2"
			}
			return "environment: 1-2 variables x 1 ambient pair x value length 1 (and 2 variables x 2 ambient pairs); values/templates: value holes of 1-2 bytes; exec: standard output of 0-3 ASCII bytes, status 0..2"
		},
		Outside:      []string{"the template engine and the shell themselves; .env loading (godotenv) is not exercised: a .env file only adds to the ambient environment, which is symbolic here", "values are printable ASCII without quotes, braces, '$', '=' (so that the native replay can print them through the real shell)"},
		Assumptions:  cliAssumptions,
		EndSignature: map[string]string{"crash": "C13/panic", "budget": "C13/non-termination", "deadlock": "C13/deadlock"},
		Jobs: func(tier string, seed int64) []jobSpec {
			out := []jobSpec{
				cliJob("EnvPrecedence", p("vars", "1", "ambient", "1", "size", "1")),
				cliJob("EnvPrecedence", p("vars", "2", "ambient", "1", "size", "1")),
				cliJob("EnvPrecedence", p("vars", "2", "ambient", "2", "size", "1")),
				cliJob("Vars", p("size", "1")), cliJob("Vars", p("size", "2")),
			}
			for n := 0; n <= 3; n++ {
				out = append(out, cliJob("Exec", p("size", strconv.Itoa(n))))
			}
			if tier == "thorough" {
				out = append(out,
					cliJob("EnvPrecedence", p("vars", "3", "ambient", "2", "size", "1")),
					cliJob("EnvPrecedence", p("vars", "2", "ambient", "2", "size", "2")),
					cliJob("Vars", p("size", "3")), cliJob("Exec", p("size", "4")))
			}
			return out
		},
	})
	_ = fmt.Sprintf
}

func cliCheck(id, explain string) *checkDef {
	return &checkDef{
		ID: id, Pkg: "clih", Level: "other", NativeCheck: true, UseStubs: true, OnlyPrefix: id + "/",
		Explanation: "Bounded exhaustive symbolic execution of the real cli/app App.Run (setup, file.Find, parser, file.New, initialise, showTasks, showVariables, handleDefault, runTasks, SpokFile.Run, IntegratedRunner.Run) on a sandbox HOME/proj in the in-memory file system. " +
			"Family 'actions': every combination of --init --fmt --vars --show --quiet --json --force --debug x {valid, syntactically invalid, semantically invalid (duplicate task), absent} spokfile x cwd in {project root, nested directory} x {no task names, a task} x presence of .gitignore and of a cache directory. " +
			"Family 'run': valid spokfile with tasks a (two commands), b (depends on a) and optionally default; --quiet/--json/--force; task lists {}, {a}, {b}, {a,b}, {undefined}; each command's exit status chosen from {0,1,2,128,255}; commands print known markers. " + explain +
			" All variables are booleans/choices: inside the bound this is complete enumeration through the real code. Violations are replayed natively (real files in a temporary HOME, the real shell, the real JSON encoder, the real tab writer).",
		Bounds: func(tier string) string {
			return "family 'actions': 2^8 flag combinations x 4 spokfile variants x 2 working directories x 2 task lists x 2x2 pre-existing files; family 'run': 2^3 flags x 5 task lists x with/without a default task x 5 statuses per command (3-4 commands) x 2 working directories"
		},
		Outside: []string{
			"C19, C20: flag parsing (FollowTheProcess/cli) is not executed, App.Options is the entry point. C09: the harness Main executes cmd/spok's run() - cmd.BuildRootCmd, the real flag parser over an argument vector (long and short forms of --quiet --json --force), App.Run - for tasks a, b(a) with 5x5 exit statuses; what is left of main is `if err != nil { msg.Error; os.Exit(1) }`, read, not executed",
			"--clean (C12's subject); .env loading; the debug log on standard error",
			"the JSON encoder, tab alignment and colours (the value handed to the encoder, and trimmed cells, are checked under the engine; the native replay checks the real output)",
			"exit statuses other than the five representatives",
		},
		Assumptions:  cliAssumptions,
		EndSignature: map[string]string{"crash": id + "/panic", "budget": id + "/non-termination", "deadlock": id + "/deadlock"},
		Jobs: func(tier string, seed int64) []jobSpec {
			out := []jobSpec{
				cliJob("Cli", map[string]string{"family": "actions", "shape": "actions"}),
				cliJob("Cli", map[string]string{"family": "run", "shape": "run"}),
				cliJob("CliRepeat", map[string]string{"shape": "repeat"}),
			}
			if id == "C09" {
				// from the argument vector to the error that main turns into exit status 1
				out = append(out, cliJob("Main", map[string]string{"shape": "main"}))
				// "the failed task is not treated as up to date by later runs": the history harness
				// (package runh) with failing commands and --force, see checks_run.go
				for _, j := range histJobs([]histShape{histShapes[0]}, 3, 1, 0, 0) {
					j.Pkg = "runh"
					out = append(out, j)
				}
				for _, j := range histJobs(histShapes[:4], 2, 1, 0, 0) {
					j.Pkg = "runh"
					out = append(out, j)
				}
				// and the inductive step, whose invariant includes "nothing is recorded after a
				// failure on the recorded inputs"
				out = append(out, indJobs(histShapes)...)
			}
			return out
		},
	}
}

func init() {
	register(cliCheck("C09", "C09: whenever an executed command has a non-zero status App.Run returns an error that names a task with a failing command (also under --quiet, --json, --force), and it returns no error when every command succeeded; the same for cmd/spok's run() started from an argument vector (the error main exits 1 on)."))
	register(cliCheck("C19", "C19: the difference between the sandbox before and after the invocation is confined to what the action allows: --init creates cwd/spokfile only when absent and only appends to cwd/.gitignore; --fmt changes only the spokfile and only when it parsed and loaded; running tasks changes only proj/.spok (never a pre-existing foreign file in it); listings, --vars, usage and load errors change nothing."))
	register(cliCheck("C20", "C20: with --json and no failing command nothing goes to the stream and exactly one document is printed whose value lists the tasks in execution order with every command's text, output, error output and status; --quiet prints nothing; --show/--vars/the default listing have one row per task/variable, sorted, with docstring/value; without task names the default task runs iff defined."))
}

func init() {
	register(&checkDef{
		ID: "C12", Pkg: "clih", Level: "other", NativeCheck: true, UseStubs: true, OnlyPrefix: "C12/",
		Explanation: "Bounded exhaustive symbolic execution of the real App.Run with --clean (handleClean, clean, runTasks, task.New's output classification, filepath.Join/Abs/Clean, os.RemoveAll on the in-memory file system): one task whose output is a literal, a named variable or a glob (five patterns, two of which also match the file named spokfile), with the output text drawn from every string over {'.','/','o'} up to length 2 plus longer paths inside and outside the project; optionally a second task, a pre-existing cache, a task named clean; cwd in {project root, nested directory, file-system root}. " +
			"On the before/after difference of the sandbox: the spokfile, its directory and everything above are never removed; nothing is created or modified; everything removed is the cache directory or designated by an output; every existing designated path inside the project is removed (files matching an output glob included); with a task named clean spok removes nothing itself and that task's command runs. All variables are choices: complete enumeration inside the bound.",
		Bounds: func(tier string) string {
			return "25 output texts x {literal, named} + 5 globs (two of which also match the spokfile), x second task x pre-existing cache x clean task x 3 working directories"
		},
		Outside: []string{
			"more than two tasks/outputs per kind; symbolic links; permission errors",
			"a named output's value is accepted relative to the spokfile directory or to the working directory (the property does not say which)",
			"native replay never runs configurations whose real RemoveAll could leave the temporary sandbox (absolute values, cwd=/): those are explored in the engine's file system only",
		},
		Assumptions:  cliAssumptions,
		EndSignature: map[string]string{"crash": "C12/panic", "budget": "C12/non-termination", "deadlock": "C12/deadlock"},
		Jobs: func(tier string, seed int64) []jobSpec {
			return []jobSpec{cliJob("Clean", map[string]string{"shape": "clean"})}
		},
	})
}
