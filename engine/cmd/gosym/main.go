// Command gosym is the driver of the symbolic executor and of the property checks.
//
//	gosym run   --pkg lexh --func C16 --param skel=... [--workers N]      one job, prints JSON
//	gosym check <property id> --tier quick|thorough                       a registered check
//	gosym check <property id> --replay <dir>                              replay a violation
package main

import (
	"encoding/json"
	"flag"
	"fmt"
	"os"
	"runtime"
	"strings"
	"time"

	"gosym/interp"
)

func defaultConfig() interp.Config {
	return interp.Config{
		SymPkg:       modulePath + "/" + overlayDir + "/sym",
		ReinitPrefix: []string{modulePath},
		InitDeny: []string{
			"runtime", "internal", "reflect", "syscall", "os", "sync", "time", "errors", "fmt", "log",
			"encoding", "text", "context", "crypto", "hash", "math", "net", "io/ioutil", "testing", "flag",
			"compress", "regexp", "bufio", "html", "mime", "go", "iter", "unique", "weak", "embed", "database", "debug", "expvar", "image", "index", "plugin", "archive", "container",
			"golang.org", "github.com", "go.uber.org", "mvdan.cc", "vendor",
		},
		InitAllow: []string{
			modulePath, "internal/oserror", "io", "io/fs", "sync", "regexp", "internal/bytealg*", "math/bits", "path", "path/filepath", "internal/filepathlite", "internal/stringslite",
			"github.com/FollowTheProcess/collections", "github.com/bmatcuk/doublestar", "github.com/juju/ansiterm/tabwriter",
		},
		Redirects: map[string]string{},
	}
}

func main() {
	if len(os.Args) < 2 {
		fmt.Fprintln(os.Stderr, "usage: gosym run|check ...")
		os.Exit(2)
	}
	switch os.Args[1] {
	case "run":
		os.Exit(cmdRun(os.Args[2:]))
	case "check":
		os.Exit(cmdCheck(os.Args[2:]))
	default:
		fmt.Fprintln(os.Stderr, "unknown command", os.Args[1])
		os.Exit(2)
	}
}

type paramFlags map[string]string

func (p paramFlags) String() string { return fmt.Sprint(map[string]string(p)) }
func (p paramFlags) Set(s string) error {
	k, v, ok := strings.Cut(s, "=")
	if !ok {
		return fmt.Errorf("param must be k=v")
	}
	v = strings.ReplaceAll(v, `\x1f`, "\x1f")
	v = strings.ReplaceAll(v, `\n`, "\n")
	v = strings.ReplaceAll(v, `\t`, "\t")
	v = strings.ReplaceAll(v, `\r`, "\r")
	p[k] = v
	return nil
}

func cmdRun(args []string) int {
	fs := flag.NewFlagSet("run", flag.ExitOnError)
	pkg := fs.String("pkg", "lexh", "harness package (below zzverif)")
	fn := fs.String("func", "", "harness function")
	workers := fs.Int("workers", runtime.NumCPU(), "worker count")
	maxPaths := fs.Int("max-paths", 0, "stop after this many paths")
	budget := fs.Int("budget", 0, "instruction budget per path")
	sched := fs.Int("sched", 0, "0 low, 1 high, 2 explore")
	mapOrder := fs.Bool("map-order", false, "explore map iteration orders")
	preempt := fs.Int("preempt", 1, "preemption bound under --sched 2")
	trace := fs.Bool("trace", false, "instruction trace")
	logdir := fs.String("solver-log", "", "directory for solver transcripts")
	full := fs.Bool("full", false, "print full result")
	sites := fs.Bool("sites", false, "histogram of fresh decision sites")
	params := paramFlags{}
	fs.Var(params, "param", "k=v job parameter (repeatable)")
	fs.Parse(args)

	t0 := time.Now()
	ld, err := loadProgram([]string{modulePath + "/" + overlayDir + "/" + *pkg}, false)
	if err != nil {
		fmt.Fprintln(os.Stderr, "load:", err)
		return 2
	}
	cfg := defaultConfig()
	cfg.Trace = *trace
	cfg.Sites = *sites
	cfg.SolverLogDir = *logdir
	if *pkg != "lexh" {
		addRedirects(&cfg)
	}
	eng, err := interp.NewEngine(ld.prog, cfg)
	if err != nil {
		fmt.Fprintln(os.Stderr, "engine:", err)
		return 2
	}
	fmt.Fprintf(os.Stderr, "loaded+built in %.2fs\n", time.Since(t0).Seconds())
	job := interp.Job{Name: *fn, Func: modulePath + "/" + overlayDir + "/" + *pkg + "." + *fn, Params: params, MaxPaths: *maxPaths,
		Opts: interp.Options{Budget: *budget, Sched: *sched, MapOrder: *mapOrder, MaxPreempt: *preempt}}
	res, err := eng.RunJob(job, *workers)
	if err != nil {
		fmt.Fprintln(os.Stderr, "run:", err)
		return 2
	}
	if !*full {
		if len(res.Violations) > 5 {
			res.Violations = res.Violations[:5]
		}
		if len(res.Samples) > 3 {
			res.Samples = res.Samples[:3]
		}
	}
	out, _ := json.MarshalIndent(res, "", " ")
	fmt.Println(string(out))
	return 0
}
