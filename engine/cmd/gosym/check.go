package main

// The check orchestrator: gosym check <id> --tier quick|thorough | --replay <dir>

import (
	"sync"
	"bytes"
	"encoding/json"
	"flag"
	"fmt"
	"math/rand"
	"os"
	"os/exec"
	"path/filepath"
	"runtime"
	"sort"
	"strconv"
	"strings"
	"time"

	"gosym/interp"
)

type jobSpec struct {
	Name     string
	Pkg      string // harness package of this job ("" = the check's package)
	Func     string // harness function name inside the package
	Params   map[string]string
	Opts     interp.Options
	MaxPaths int
}

type checkDef struct {
	ID           string
	Pkg          string // harness package below zzverif
	Level        string // evidence level category
	Jobs         func(tier string, seed int64) []jobSpec
	Corpus       func() []jobSpec // fully concrete inputs for translation validation
	Redirects    map[string]string
	Observe      []string
	StopAt       []string
	Assumptions  []string
	Outside      []string
	Bounds       func(tier string) string
	Explanation  string
	EndSignature map[string]string // abnormal path end kind -> violation signature ("" = not a violation)
	OnlyPrefix   string            // only violations whose signature has this prefix belong to this check
	AlsoSigs     []string          // signatures of a shared harness that also belong to this check although they carry another property's prefix
	UseStubs     bool              // install the vfs/stubs redirect table
	NativeCheck  bool              // violations are confirmed by native playback of the same harness
	NativeRepeat int               // native confirmation replays each example this many times (behaviour depending on map order / scheduling)
	NoNative     map[string]bool   // signatures that cannot be replayed natively with the harness (confirmed by other means)
}

var checks = map[string]*checkDef{}

func register(c *checkDef) { checks[c.ID] = c }


type knownFinding struct {
	Property  string `json:"property"`
	Status    string `json:"status"` // known | fixed
	Signature string `json:"signature"`
	What      string `json:"what"`
	Commit    string `json:"commit,omitempty"`
	Example   string `json:"example,omitempty"`
}

func loadKnown() []knownFinding {
	data, err := os.ReadFile(filepath.Join(verifDir(), "known_findings.json"))
	if err != nil {
		return nil
	}
	var out []knownFinding
	if err := json.Unmarshal(data, &out); err != nil {
		fmt.Fprintln(os.Stderr, "known_findings.json:", err)
		return nil
	}
	return out
}

// ---- native playback ---------------------------------------------------------------------------

type nativeItem struct {
	Func   string            `json:"func"`
	Vars   map[string]uint64 `json:"vars"`
	Params map[string]string `json:"params"`
}

type nativeResult struct {
	Index      int               `json:"index"`
	Violations []string          `json:"violations"`
	Observed   map[string]string `json:"observed"`
	Reached    []string          `json:"reached"`
	Panic      string            `json:"panic,omitempty"`
	Hang       bool              `json:"hang,omitempty"`
	AssumeFail bool              `json:"assume_failed,omitempty"`
	CutLabel   string            `json:"cut,omitempty"`
}

func workDir(id string) string {
	d := filepath.Join(verifDir(), "work", id)
	if w := os.Getenv("GOSYM_WORK"); w != "" {
		d = filepath.Join(w, id)
	}
	os.MkdirAll(d, 0o755)
	return d
}

func writeOverlayJSON(dir string) (string, error) {
	files, err := overlayFiles()
	if err != nil {
		return "", err
	}
	// The native build also gets an instrumented copy of cache/cache.go, regenerated from the
	// current source: Dump's os.WriteFile goes through verifWriteFile (harness/runh/inpkg__cache__hook.go)
	// so that a kill inside a write of the cache file can be replayed at exactly that write.
	// If the call is not found (the source changed) the file is left alone and such kills are
	// not replayable natively (reported as such, never as a pass).
	if src, err := os.ReadFile(filepath.Join(repoDir, "cache", "cache.go")); err == nil {
		const call = "os.WriteFile(path, contents, filePerms)"
		if bytes.Count(src, []byte(call)) == 1 {
			inst := bytes.Replace(src, []byte(call), []byte("verifWriteFile(path, contents, filePerms)"), 1)
			ip := filepath.Join(dir, "cache_instrumented.go")
			if os.WriteFile(ip, inst, 0o644) == nil {
				files[filepath.Join(repoDir, "cache", "cache.go")] = ip
			}
		}
	}
	ov := struct {
		Replace map[string]string
	}{files}
	data, _ := json.MarshalIndent(ov, "", " ")
	p := filepath.Join(dir, "overlay.json")
	return p, os.WriteFile(p, data, 0o644)
}

// nativeBatch runs the items natively against /repo's working tree.
func nativeBatch(id, pkg string, items []nativeItem) ([]nativeResult, string, error) {
	dir := workDir(id)
	ovp, err := writeOverlayJSON(dir)
	if err != nil {
		return nil, "", err
	}
	results := make([]nativeResult, len(items))
	var log bytes.Buffer
	start := 0
	for start < len(items) {
		// one process per run of items with the same "taskset" parameter: the native binary
		// sees as many CPUs (runtime.NumCPU) as the job's worker count says
		cpus := items[start].Params["taskset"]
		end := start + 1
		for end < len(items) && items[end].Params["taskset"] == cpus {
			end++
		}
		batch := items[start:end]
		bp := filepath.Join(dir, "batch.json")
		op := filepath.Join(dir, "batch.out")
		data, _ := json.Marshal(batch)
		os.WriteFile(bp, data, 0o644)
		os.Remove(op)
		bin := filepath.Join(dir, pkg+".test")
		if start == 0 {
			build := exec.Command("go", "test", "-c", "-o", bin, "-overlay", ovp, "-tags", "verif", "-vet=off", "./"+overlayDir+"/"+pkg+"/")
			build.Dir = repoDir
			build.Env = append(os.Environ(), "GOFLAGS=-mod=mod", "GOPROXY=off", "GOSUMDB=off", "GOTOOLCHAIN=local")
			if bout, err := build.CombinedOutput(); err != nil {
				return nil, string(bout), fmt.Errorf("native build of the harness failed: %v\n%s", err, bout)
			}
		}
		cmd := exec.Command(bin, "-test.run", "^TestNativePlayback$", "-test.count=1", "-test.timeout=20m")
		if cpus != "" {
			if k, err := strconv.Atoi(cpus); err == nil && k >= 1 && k <= runtime.NumCPU() {
				cmd = exec.Command("taskset", "-c", "0-"+strconv.Itoa(k-1), bin, "-test.run", "^TestNativePlayback$", "-test.count=1", "-test.timeout=20m")
			}
		}
		cmd.Dir = dir
		scratch := filepath.Join(dir, "tmp")
		os.RemoveAll(scratch)
		os.MkdirAll(scratch, 0o755)
		cmd.Env = append(os.Environ(), "GOSYM_BATCH="+bp, "GOSYM_OUT="+op, "TMPDIR="+scratch)
		out, runErr := cmd.CombinedOutput()
		log.Write(out)
		os.RemoveAll(scratch) // whatever a dying native process left behind
		f, err := os.ReadFile(op)
		if err != nil {
			return nil, log.String(), fmt.Errorf("native playback produced no output: %v\n%s", runErr, out)
		}
		n := 0
		hang := false
		for _, line := range bytes.Split(f, []byte("\n")) {
			if len(bytes.TrimSpace(line)) == 0 {
				continue
			}
			var r nativeResult
			if err := json.Unmarshal(line, &r); err != nil {
				return nil, log.String(), err
			}
			results[start+r.Index] = r
			results[start+r.Index].Index = start + r.Index
			n++
			hang = r.Hang
		}
		if n == 0 {
			if runErr == nil {
				return nil, log.String(), fmt.Errorf("native playback: no results\n%s", out)
			}
			// the process died while playing back the first item (e.g. a panic in a goroutine
			// that is not the harness's): that item's outcome is the death of the process
			results[start] = nativeResult{Index: start, Panic: "process died: " + lastLines(string(out), 30)}
			start++
			continue
		}
		if n < len(batch) && !hang {
			// the process died (crash in a non-harness goroutine, os.Exit, ...): attribute to the next item
			results[start+n] = nativeResult{Index: start + n, Panic: "process died: " + lastLines(string(out), 30)}
			n++
		}
		start += n
	}
	return results, log.String(), nil
}

func lastLines(s string, n int) string {
	ls := strings.Split(strings.TrimSpace(s), "\n")
	if len(ls) > n {
		ls = ls[len(ls)-n:]
	}
	return strings.Join(ls, "\n")
}

// ---- evidence ----------------------------------------------------------------------------------

type evidence struct {
	PropertyID  string                 `json:"property_id"`
	Tier        string                 `json:"tier"`
	Seed        int64                  `json:"seed"`
	Level       string                 `json:"level"`
	Coverage    map[string]interface{} `json:"coverage"`
	Assumptions []string               `json:"assumptions"`
	WallS       float64                `json:"wall_s"`
	Violations  int                    `json:"violations"`
}

type sigGroup struct {
	Sig       string
	Count     int
	Examples  []interp.Violation
	Confirmed bool
	Known     bool
	Native    string
	seenChoice map[string]bool
}

func modelSummary(m map[string]uint64) string {
	// join byte variables h0[0..] into strings
	type hv struct {
		idx int
		v   uint64
	}
	groups := map[string][]hv{}
	var others []string
	for k, v := range m {
		if i := strings.IndexByte(k, '['); i > 0 && strings.HasSuffix(k, "]") {
			n, err := strconv.Atoi(k[i+1 : len(k)-1])
			if err == nil {
				groups[k[:i]] = append(groups[k[:i]], hv{n, v})
				continue
			}
		}
		others = append(others, fmt.Sprintf("%s=%d", k, v))
	}
	var parts []string
	var names []string
	for g := range groups {
		names = append(names, g)
	}
	sort.Strings(names)
	for _, g := range names {
		hs := groups[g]
		sort.Slice(hs, func(a, b int) bool { return hs[a].idx < hs[b].idx })
		b := make([]byte, 0, len(hs))
		for _, h := range hs {
			b = append(b, byte(h.v))
		}
		parts = append(parts, fmt.Sprintf("%s=%q", g, string(b)))
	}
	sort.Strings(others)
	return strings.Join(append(parts, others...), " ")
}

func cmdCheck(args []string) int {
	if len(args) < 1 {
		fmt.Fprintln(os.Stderr, "usage: gosym check <id> [--tier quick|thorough] [--replay dir]")
		return 2
	}
	id := args[0]
	fs := flag.NewFlagSet("check", flag.ExitOnError)
	tier := fs.String("tier", envOr("VERIF_TIER", "quick"), "quick or thorough")
	replay := fs.String("replay", "", "replay directory")
	workers := fs.Int("workers", runtime.NumCPU(), "workers")
	fs.Parse(args[1:])
	def, ok := checks[id]
	if !ok {
		fmt.Fprintln(os.Stderr, "unknown check", id)
		return 2
	}
	seed := int64(1)
	if s := os.Getenv("VERIF_SEED"); s != "" {
		if v, err := strconv.ParseInt(s, 10, 64); err == nil {
			seed = v
		}
	}
	if *replay != "" {
		return doReplay(def, *replay)
	}
	return runCheck(def, *tier, seed, *workers)
}

func envOr(k, d string) string {
	if v := os.Getenv(k); v != "" {
		return v
	}
	return d
}

func runCheck(def *checkDef, tier string, seed int64, workers int) int {
	t0 := time.Now()
	inconclusive := []string{}
	note := func(format string, a ...interface{}) {
		msg := fmt.Sprintf(format, a...)
		inconclusive = append(inconclusive, msg)
		fmt.Println("INCONCLUSIVE:", msg)
	}
	jobs := def.Jobs(tier, seed)
	// job names are unique (they name the solver transcripts of jobs that run side by side)
	seenName := map[string]int{}
	for k := range jobs {
		seenName[jobs[k].Name]++
		if c := seenName[jobs[k].Name]; c > 1 {
			jobs[k].Name = fmt.Sprintf("%s/%d", jobs[k].Name, c)
		}
	}
	pkgOf := func(j jobSpec) string {
		if j.Pkg != "" {
			return j.Pkg
		}
		return def.Pkg
	}
	patterns := []string{modulePath + "/" + overlayDir + "/" + def.Pkg}
	for _, j := range jobs {
		pat := modulePath + "/" + overlayDir + "/" + pkgOf(j)
		if !containsStr(patterns, pat) {
			patterns = append(patterns, pat)
		}
	}
	ld, err := loadProgram(patterns, false)
	if err != nil {
		fmt.Println("INCONCLUSIVE: cannot load /repo with the harness:", err)
		writeEvidence(def, tier, seed, nil, nil, nil, 0, 0, time.Since(t0), []string{"load failed: " + err.Error()}, nil)
		return 2
	}
	cfg := defaultConfig()
	smtDir := filepath.Join(workDir(def.ID), "smt")
	os.RemoveAll(smtDir)
	os.MkdirAll(smtDir, 0o755)
	cfg.SolverLogDir = smtDir
	if def.UseStubs {
		addRedirects(&cfg)
	}
	for k, v := range def.Redirects {
		cfg.Redirects[k] = v
	}
	eng, err := interp.NewEngine(ld.prog, cfg)
	if err != nil {
		fmt.Println("INCONCLUSIVE: engine:", err)
		return 2
	}
	for _, o := range def.Observe {
		if !eng.Observe(o) {
			note("observed function %s not found in the program", o)
		}
	}
	for _, s := range def.StopAt {
		if !eng.StopAt(s) {
			note("stop-at function %s not found in the program", s)
		}
	}
	loadS := time.Since(t0).Seconds()
	fmt.Printf("[%s] loaded /repo + harness %s and built SSA in %.1fs\n", def.ID, def.Pkg, loadS)
	pkgPrefix := modulePath + "/" + overlayDir + "/" + def.Pkg + "."

	// 1. translation validation of the engine on a concrete corpus
	validated := 0
	if def.Corpus != nil {
		corpus := def.Corpus()
		var items []nativeItem
		var engObs []map[string]string
		var engViol [][]string
		for _, j := range corpus {
			res, err := eng.RunJob(interp.Job{Name: j.Name, Func: pkgPrefix + j.Func, Params: j.Params, Opts: j.Opts}, 1)
			if err != nil {
				note("corpus job %s: %v", j.Name, err)
				continue
			}
			if res.Paths != 1 || len(res.Samples) == 0 {
				note("corpus job %s: expected one concrete path, got %d (%v) %v", j.Name, res.Paths, res.Ends, res.EngineErrs)
				continue
			}
			obs := res.Samples[0].Observed
			obs["#end"] = res.Samples[0].End
			if strings.HasPrefix(res.Samples[0].Detail, "stop-at") {
				obs["#stopped"] = "1"
			}
			var vs []string
			for _, v := range res.Violations {
				vs = append(vs, v.ID)
			}
			engObs = append(engObs, obs)
			engViol = append(engViol, vs)
			items = append(items, nativeItem{Func: j.Func, Vars: map[string]uint64{}, Params: j.Params})
		}
		if len(items) > 0 {
			nres, log, err := nativeBatch(def.ID, def.Pkg, items)
			if err != nil {
				note("native corpus run failed: %v %s", err, lastLines(log, 10))
			} else {
				for k := range items {
					if diff := compareObs(engObs[k], engViol[k], nres[k]); diff != "" {
						note("engine and native build disagree on corpus input %q: %s", items[k].Params["skel"], diff)
					} else {
						validated++
					}
				}
			}
		}
		fmt.Printf("[%s] translation validation: %d/%d corpus inputs agree between engine and native build\n", def.ID, validated, len(corpus))
	}

	// 2. the symbolic jobs
	var results []*interp.JobResult
	total := struct {
		paths, oblig, disch, unknown, decisions int
		steps                                  int64
		queries                                int
		solver                                 time.Duration
	}{}
	reach := map[string]int{}
	cuts := map[string]int{}
	ends := map[string]int{}
	var allViol []interp.Violation
	var abnormal []interp.AbnormalEnd
	var abnormalJobs []*interp.JobResult
	var samples []interface{}
	rng := rand.New(rand.NewSource(seed))
	crossJobs, crossQueries, crossPicked := 0, 0, 0
	var crossWG sync.WaitGroup
	var crossMu sync.Mutex
	var crossNotes []string
	// Up to four jobs are explored at once (the engine's CPU tokens keep the number of running
	// paths at the number of CPUs); their results are processed here in job order.
	type jobDone struct {
		res *interp.JobResult
		err error
	}
	done := make([]chan jobDone, len(jobs))
	for n := range done {
		done[n] = make(chan jobDone, 1)
	}
	go func() {
		slots := make(chan struct{}, 4)
		for n, j := range jobs {
			slots <- struct{}{}
			go func(n int, j jobSpec) {
				res, err := eng.RunJob(interp.Job{Name: j.Name, Func: modulePath + "/" + overlayDir + "/" + pkgOf(j) + "." + j.Func, Params: j.Params, Opts: j.Opts, MaxPaths: j.MaxPaths}, workers)
				done[n] <- jobDone{res, err}
				<-slots
			}(n, j)
		}
	}()
	for n, j := range jobs {
		d := <-done[n]
		res, err := d.res, d.err
		if err != nil {
			note("job %s: %v", j.Name, err)
			continue
		}
		results = append(results, res)
		// cross-check the answers of one worker's solver session with a second solver, for the
		// first jobs and a seed-chosen sample of the rest; transcripts are removed afterwards
		tr := filepath.Join(smtDir, fmt.Sprintf("solver-%s-0.smt2", sanitizeJob(j.Name)))
		if res.Solver.Queries > 0 && (crossPicked < 3 || rng.Intn(20) == 0) && crossPicked < 12 {
			// runs beside the exploration of the following jobs; collected before the verdict
			crossPicked++
			crossWG.Add(1)
			go func(name, tr string) {
				defer crossWG.Done()
				if os.Getenv("GOSYM_KEEP_SMT") == "" {
					defer os.Remove(tr)
				}
				n, disagreement, err := crossCheck(tr, 3<<20)
				crossMu.Lock()
				defer crossMu.Unlock()
				switch {
				case err != nil:
					crossNotes = append(crossNotes, fmt.Sprintf("cross-check of job %s with cvc5 failed: %v", name, err))
				case disagreement != "":
					crossNotes = append(crossNotes, fmt.Sprintf("solvers disagree on job %s: %s", name, disagreement))
				case n > 0:
					crossJobs++
					crossQueries += n
				}
			}(j.Name, tr)
		} else {
			os.Remove(tr)
		}
		if res.Wall > 5 {
			fmt.Printf("[%s]   job %s: %d paths in %.1fs (%d solver queries)\n", def.ID, j.Name, res.Paths, res.Wall, res.Solver.Queries)
		}
		total.paths += res.Paths
		total.oblig += res.Oblig
		total.disch += res.Discharged
		total.unknown += res.Unknowns
		total.decisions += res.Decisions
		total.steps += res.Steps
		total.queries += res.Solver.Queries
		total.solver += res.Solver.Time
		for k, v := range res.Reach {
			reach[k] += v
		}
		for k, v := range res.Cuts {
			cuts[k] += v
		}
		for k, v := range res.Ends {
			ends[k] += v
		}
		allViol = append(allViol, res.Violations...)
		for _, a := range res.Abnormal {
			abnormal = append(abnormal, a)
			abnormalJobs = append(abnormalJobs, res)
		}
		if len(res.EngineErrs) > 0 {
			note("job %s: engine errors: %s", j.Name, res.EngineErrs[0])
		}
		if res.Truncated {
			note("job %s: path limit reached, exploration truncated", j.Name)
		}
		if res.Unknowns > 0 {
			note("job %s: %d solver unknown/time-out", j.Name, res.Unknowns)
		}
		if len(res.Samples) > 0 && len(samples) < 12 {
			s := res.Samples[rng.Intn(len(res.Samples))]
			samples = append(samples, map[string]interface{}{"job": j.Name, "params": printable(j.Params), "model": modelSummary(s.Model), "observed": s.Observed, "end": s.End})
		}
		if (n+1)%50 == 0 || n == len(jobs)-1 {
			fmt.Printf("[%s] %d/%d jobs, %d paths, %d obligations (%d discharged), %d violations so far, %.0fs\n", def.ID, n+1, len(jobs), total.paths, total.oblig, total.disch, len(allViol), time.Since(t0).Seconds())
		}
	}

	crossWG.Wait()
	for _, n := range crossNotes {
		note("%s", n)
	}

	// 3. abnormal ends become violations with the signature registered for their kind
	for k, a := range abnormal {
		sig, isViol := def.EndSignature[a.End]
		if !isViol {
			note("path ended abnormally (%s): %s [%s]", a.End, firstLine(a.Detail), modelSummary(a.Model))
			continue
		}
		if sig == "" {
			continue
		}
		allViol = append(allViol, interp.Violation{ID: sig, Msg: a.Detail, Model: a.Model, Decisions: a.Decisions, Observed: a.Observed, Job: abnormalJobs[k].Job, Params: abnormalJobs[k].Params})
	}

	// 4. group violations by signature, confirm natively, match known findings
	groups := map[string]*sigGroup{}
	var order []string
	otherProps := map[string]int{}
	for _, v := range allViol {
		if def.OnlyPrefix != "" && !strings.HasPrefix(v.ID, def.OnlyPrefix) && !containsStr(def.AlsoSigs, v.ID) {
			otherProps[v.ID]++
			continue
		}
		g := groups[v.ID]
		if g == nil {
			g = &sigGroup{Sig: v.ID}
			groups[v.ID] = g
			order = append(order, v.ID)
		}
		g.Count++
		// examples for the native confirmation: the first few, and any whose combination of
		// choices (kind of kill, request, shape ...) has not been seen yet - one kind of example
		// may be beyond what the native replay can emulate while another reproduces
		ck := choiceKey(v)
		if g.seenChoice == nil {
			g.seenChoice = map[string]bool{}
		}
		if len(g.Examples) < 4 || (!g.seenChoice[ck] && len(g.Examples) < 24) {
			g.seenChoice[ck] = true
			g.Examples = append(g.Examples, v)
		}
	}
	sort.Strings(order)
	known := loadKnown()
	exit := 0
	knownMatched := []string{}
	jobFunc := map[string]string{}
	jobPkg := map[string]string{}
	for _, j := range jobs {
		jobFunc[j.Name] = j.Func
		jobPkg[j.Name] = pkgOf(j)
	}
	for _, sig := range order {
		g := groups[sig]
		// native confirmation
		if def.NativeCheck && !def.NoNative[sig] {
			var items []nativeItem
			exOf := []int{}
			rep := def.NativeRepeat
			if rep < 1 {
				rep = 1
			}
			for ei, ex := range g.Examples {
				for r := 0; r < rep; r++ {
					items = append(items, nativeItem{Func: jobFunc[ex.Job], Vars: ex.Model, Params: ex.Params})
					exOf = append(exOf, ei)
				}
			}
			nres, log, err := nativeBatch(def.ID, jobPkg[g.Examples[0].Job], items)
			if err != nil {
				note("native replay of %s failed: %v %s", sig, err, lastLines(log, 10))
			} else {
				for k, r := range nres {
					if nativeShows(r, sig, def) {
						g.Confirmed = true
						g.Native = describeNative(r)
						g.Examples[0], g.Examples[exOf[k]] = g.Examples[exOf[k]], g.Examples[0]
						break
					}
				}
				if !g.Confirmed {
					note("counterexample for %s does not reproduce natively (engine or stub wrong): model %s; native: %s", sig, modelSummary(g.Examples[0].Model), describeNative(nres[0]))
					continue
				}
			}
		} else {
			g.Confirmed = true
		}
		if !g.Confirmed {
			continue
		}
		// replay directory
		rdir := filepath.Join(workDir(def.ID), "replay", sanitizeName(sig))
		os.MkdirAll(rdir, 0o755)
		ex := g.Examples[0]
		mj, _ := json.MarshalIndent(map[string]interface{}{"property": def.ID, "signature": sig, "func": jobFunc[ex.Job], "vars": ex.Model, "params": ex.Params, "observed": ex.Observed, "msg": ex.Msg, "model_summary": modelSummary(ex.Model), "native": g.Native}, "", " ")
		os.WriteFile(filepath.Join(rdir, "model.json"), mj, 0o644)
		isKnown := false
		for _, kf := range known {
			if kf.Property == def.ID && kf.Status == "known" && kf.Signature == sig {
				isKnown = true
			}
		}
		if isKnown {
			g.Known = true
			knownMatched = append(knownMatched, sig)
			fmt.Printf("KNOWN-FINDING: property=%s %s (%d paths; e.g. %s %s)\n", def.ID, sig, g.Count, modelSummary(ex.Model), obsSummary(ex.Observed))
		} else {
			fmt.Printf("VIOLATION property=%s replay=%s\n", def.ID, rdir)
			fmt.Printf("  signature %s on %d paths; e.g. %s %s %s\n", sig, g.Count, modelSummary(ex.Model), obsSummary(ex.Observed), firstLine(ex.Msg))
			exit = 1
		}
	}

	// 5. vacuity: every reach marker and assertion the harness contains must have been reached
	// (the markers are discovered from the runs themselves; a check-specific list can be added later)
	if total.paths == 0 {
		note("no path explored")
	}
	if total.oblig == 0 {
		note("no assertion instance reached (vacuous)")
	}

	// 6. validate a seed-chosen sample of symbolic paths natively
	tv := 0
	notReplayable := 0
	if def.NativeCheck {
		perJob := 2
		if len(results) <= 4 {
			perJob = 25
		}
		byPkg := map[string][]nativeItem{}
		wantBy := map[string][]interp.PathSample{}
		total := 0
		for _, res := range results {
			if len(res.Samples) == 0 || total >= 120 {
				continue
			}
			perm := rng.Perm(len(res.Samples))
			taken := 0
			for _, k := range perm {
				if taken >= perJob {
					break
				}
				s := res.Samples[k]
				if s.End != "ok" || strings.HasPrefix(s.Detail, "stop-at") {
					continue
				}
				pk := jobPkg[res.Job]
				byPkg[pk] = append(byPkg[pk], nativeItem{Func: jobFunc[res.Job], Vars: s.Model, Params: res.Params})
				wantBy[pk] = append(wantBy[pk], s)
				taken++
				total++
			}
		}
		var pks []string
		for pk := range byPkg {
			pks = append(pks, pk)
		}
		sort.Strings(pks)
		for _, pk := range pks {
			items, want := byPkg[pk], wantBy[pk]
			nres, log, err := nativeBatch(def.ID, pk, items)
			if err != nil {
				note("native validation of sampled paths failed: %v %s", err, lastLines(log, 10))
			} else {
				for k := range items {
					if nres[k].AssumeFail && nres[k].CutLabel != "" {
						notReplayable++ // the harness declines to replay this configuration natively
						continue
					}
					if nres[k].AssumeFail {
						note("sampled path model violates a harness assumption natively: %s", modelSummary(items[k].Vars))
						continue
					}
					if d := compareObsOnly(want[k].Observed, nres[k]); d != "" {
						note("sampled symbolic path disagrees with the native build: %s: %s", modelSummary(items[k].Vars), d)
					} else {
						tv++
					}
				}
			}
		}
	}
	wall := time.Since(t0)
	// functions encoded
	var funcs []string
	for f, n := range eng.Cov {
		if strings.Contains(f, modulePath+"/"+overlayDir+"/sym") {
			continue
		}
		funcs = append(funcs, fmt.Sprintf("%s:%d", f, n))
	}
	sort.Strings(funcs)
	if exit == 0 && len(inconclusive) > 0 {
		exit = 2
	}
	cov := map[string]interface{}{
		"explanation":                   def.Explanation,
		"bounds":                        def.Bounds(tier),
		"outside_claim":                 def.Outside,
		"jobs":                          len(jobs),
		"paths":                         total.paths,
		"evaluations":                   total.paths,
		"distinct_nontrivial":           total.paths - ends["cut"],
		"rule":                          "one evaluation = one explored symbolic path (a set of inputs driving the code the same way, decided feasible by the solver); distinct by decision vector; non-trivial = not cut by an assumption",
		"path_ends":                     ends,
		"decisions":                     total.decisions,
		"instructions_interpreted":      total.steps,
		"obligations":                   total.oblig,
		"discharged":                    total.disch,
		"solver_queries":                total.queries,
		"solver_time_s":                 total.solver.Seconds(),
		"solver":                        strings.Join(interp.SolverCmd, " "),
		"solver_unknown":                total.unknown,
		"second_solver":                 "cvc5 --incremental (every check-sat answer of sampled worker sessions re-decided and compared)",
		"second_solver_jobs":            crossJobs,
		"second_solver_queries_compared": crossQueries,
		"reach":                         reach,
		"cuts_by_assumption":            cuts,
		"functions_encoded":             funcs,
		"stubs":                         eng.Stubs,
		"traces_validated_against_impl": validated + tv,
		"corpus_validated":              validated,
		"sampled_paths_validated":       tv,
		"sampled_paths_not_replayable_natively": notReplayable,
		"states":                        total.paths,
		"transitions":                   total.decisions,
		"samples":                       samples,
		"known_findings_matched":        knownMatched,
		"inconclusive":                  inconclusive,
		"exhaustive":                    len(inconclusive) == 0,
		"load_build_s":                  loadS,
	}
	var sigs []map[string]interface{}
	for _, sig := range order {
		g := groups[sig]
		sigs = append(sigs, map[string]interface{}{"signature": sig, "paths": g.Count, "confirmed_natively": g.Confirmed, "known_finding": g.Known, "example": modelSummary(g.Examples[0].Model), "observed": g.Examples[0].Observed})
	}
	if def.OnlyPrefix != "" {
		own := 0
		ownIDs := map[string]int{}
		for k, v := range reach {
			if strings.HasPrefix(k, "assert:"+def.OnlyPrefix) {
				own += v
				ownIDs[strings.TrimPrefix(k, "assert:")] = v
			}
		}
		cov["paths_reaching_assertions_of_this_property"] = ownIDs
		cov["note_on_counts"] = "the harness is shared with other properties: 'obligations' counts every assertion instance of the harness; the map above counts, per assertion of this property, the paths on which it was evaluated"
		_ = own
	}
	cov["violation_signatures"] = sigs
	cov["violations_of_other_properties_seen_by_the_shared_harness"] = otherProps
	nv := 0
	for _, g := range groups {
		if g.Confirmed && !g.Known {
			nv++
		}
	}
	writeEvidenceRaw(def, tier, seed, cov, wall, nv)
	fmt.Printf("[%s] tier=%s %s: %d jobs, %d paths, %d/%d obligations discharged, %d solver queries (%.1fs solver), %d traces validated natively, wall %.1fs, exit %d\n",
		def.ID, tier, def.Bounds(tier), len(jobs), total.paths, total.disch, total.oblig, total.queries, total.solver.Seconds(), validated+tv, wall.Seconds(), exit)
	return exit
}

func firstLine(s string) string {
	if i := strings.IndexByte(s, '\n'); i >= 0 {
		return s[:i]
	}
	return s
}

func printable(m map[string]string) map[string]string {
	out := map[string]string{}
	for k, v := range m {
		out[k] = strconv.Quote(v)
	}
	return out
}

func obsSummary(o map[string]string) string {
	var ks []string
	for k := range o {
		ks = append(ks, k)
	}
	sort.Strings(ks)
	var parts []string
	for _, k := range ks {
		v := o[k]
		if len(v) > 120 {
			v = v[:120] + "..."
		}
		parts = append(parts, k+"="+v)
	}
	return "{" + strings.Join(parts, " ") + "}"
}

func sanitizeName(s string) string {
	return strings.Map(func(r rune) rune {
		if r >= 'a' && r <= 'z' || r >= 'A' && r <= 'Z' || r >= '0' && r <= '9' || r == '-' || r == '_' || r == '.' {
			return r
		}
		return '_'
	}, s)
}

// nativeShows reports whether the native playback exhibits the violation signature.
func nativeShows(r nativeResult, sig string, def *checkDef) bool {
	for _, v := range r.Violations {
		if v == sig {
			return true
		}
	}
	for kind, s := range def.EndSignature {
		if s != sig {
			continue
		}
		switch kind {
		case "crash":
			if r.Panic != "" {
				return true
			}
		case "budget", "deadlock":
			if r.Hang {
				return true
			}
		}
	}
	return false
}

func describeNative(r nativeResult) string {
	switch {
	case r.Hang:
		return "hang (5 s watchdog)"
	case r.Panic != "":
		return "panic: " + firstLine(r.Panic)
	case r.AssumeFail:
		return "model violates a harness assumption"
	}
	return fmt.Sprintf("violations=%v observed=%s", r.Violations, obsSummary(r.Observed))
}

func compareObs(eng map[string]string, engViol []string, n nativeResult) string {
	if eng["#stopped"] != "" && (n.Hang || n.Panic != "") {
		return "" // the engine path was cut before the point where the native run fails
	}
	if n.Hang {
		if eng["#end"] == "budget" || eng["#end"] == "deadlock" {
			return ""
		}
		return "native hang, engine end " + eng["#end"]
	}
	if n.Panic != "" {
		if eng["#end"] == "crash" {
			return ""
		}
		return "native panic " + firstLine(n.Panic) + ", engine end " + eng["#end"]
	}
	if eng["#end"] != "ok" {
		return "engine end " + eng["#end"] + ", native completed"
	}
	a := append([]string(nil), engViol...)
	b := append([]string(nil), n.Violations...)
	sort.Strings(a)
	sort.Strings(b)
	if strings.Join(a, ",") != strings.Join(b, ",") && eng["#stopped"] == "" {
		return fmt.Sprintf("violations differ: engine %v native %v", a, b)
	}
	for k, v := range eng {
		if k == "#end" || k == "#stopped" || strings.HasPrefix(k, "~") {
			continue
		}
		if n.Observed[k] != v {
			return fmt.Sprintf("observation %s: engine %s native %s", k, v, n.Observed[k])
		}
	}
	if eng["#stopped"] != "" {
		return "" // the engine path was cut at a stop-at function: the native run observes more
	}
	for k, v := range n.Observed {
		if strings.HasPrefix(k, "~") {
			continue
		}
		if _, ok := eng[k]; !ok {
			return fmt.Sprintf("observation %s only native: %s", k, v)
		}
	}
	return ""
}

func compareObsOnly(eng map[string]string, n nativeResult) string {
	if n.Hang || n.Panic != "" {
		return "native " + describeNative(n)
	}
	for k, v := range eng {
		if strings.HasPrefix(k, "~") {
			continue // informational: legitimately differs between runs (map order, scheduling)
		}
		if strings.Contains(v, "\\x00⟦") || strings.Contains(v, "⟦") {
			continue // placeholder text is not comparable
		}
		if n.Observed[k] != v {
			return fmt.Sprintf("observation %s: engine %s native %s", k, v, n.Observed[k])
		}
	}
	return ""
}

func writeEvidence(def *checkDef, tier string, seed int64, _ interface{}, _ interface{}, _ interface{}, _ int, _ int, wall time.Duration, inconclusive []string, _ interface{}) {
	cov := map[string]interface{}{
		"explanation":         def.Explanation + " (this run was inconclusive)",
		"evaluations":         1,
		"distinct_nontrivial": 2,
		"inconclusive":        inconclusive,
		"samples":             []interface{}{"none: the run did not reach exploration"},
	}
	writeEvidenceRaw(def, tier, seed, cov, wall, 0)
}

func writeEvidenceRaw(def *checkDef, tier string, seed int64, cov map[string]interface{}, wall time.Duration, nviol int) {
	ev := evidence{PropertyID: def.ID, Tier: tier, Seed: seed, Level: def.Level, Coverage: cov, Assumptions: def.Assumptions, WallS: wall.Seconds(), Violations: nviol}
	if ev.Assumptions == nil {
		ev.Assumptions = []string{}
	}
	data, _ := json.MarshalIndent(ev, "", " ")
	dir := filepath.Join(verifDir(), "evidence")
	if e := os.Getenv("GOSYM_EVIDENCE"); e != "" {
		dir = e // experiments against a scratch worktree must not overwrite the real evidence
	}
	os.MkdirAll(dir, 0o755)
	os.WriteFile(filepath.Join(dir, def.ID+".json"), data, 0o644)
}

func doReplay(def *checkDef, dir string) int {
	data, err := os.ReadFile(filepath.Join(dir, "model.json"))
	if err != nil {
		fmt.Fprintln(os.Stderr, err)
		return 2
	}
	var m struct {
		Signature string            `json:"signature"`
		Func      string            `json:"func"`
		Vars      map[string]uint64 `json:"vars"`
		Params    map[string]string `json:"params"`
	}
	if err := json.Unmarshal(data, &m); err != nil {
		fmt.Fprintln(os.Stderr, err)
		return 2
	}
	res, log, err := nativeBatch(def.ID, def.Pkg, []nativeItem{{Func: m.Func, Vars: m.Vars, Params: m.Params}})
	if err != nil {
		fmt.Fprintln(os.Stderr, err, log)
		return 2
	}
	fmt.Printf("replay of %s (%s) against /repo's working tree: %s\n", m.Signature, modelSummary(m.Vars), describeNative(res[0]))
	if nativeShows(res[0], m.Signature, def) {
		fmt.Printf("VIOLATION property=%s replay=%s\n", def.ID, dir)
		return 1
	}
	fmt.Println("the violation does not reproduce")
	return 0
}

func containsStr(l []string, s string) bool {
	for _, x := range l {
		if x == s {
			return true
		}
	}
	return false
}

// crossCheck replays a solver transcript through a second solver (cvc5) and compares every
// check-sat answer with the one the primary solver gave. It returns the number of answers
// compared and a description of the first disagreement ("" if none).
func crossCheck(transcript string, maxBytes int64) (int, string, error) {
	data, err := os.ReadFile(transcript)
	if err != nil {
		return 0, "", err
	}
	if int64(len(data)) > maxBytes {
		data = data[:maxBytes]
	}
	// cut at the last complete path (the transcript may be capped or truncated)
	cut := bytes.LastIndex(data, []byte("(pop 1)\n"))
	if cut < 0 {
		return 0, "", nil
	}
	data = data[:cut+len("(pop 1)\n")]
	var want []string
	var script bytes.Buffer
	script.WriteString("(set-logic ALL)\n")
	for _, line := range bytes.Split(data, []byte("\n")) {
		if bytes.HasPrefix(line, []byte("; ANSWER ")) {
			want = append(want, string(bytes.TrimPrefix(line, []byte("; ANSWER "))))
			continue
		}
		if bytes.HasPrefix(line, []byte("(get-value")) {
			continue // models differ between solvers and are not compared
		}
		script.Write(line)
		script.WriteByte('\n')
	}
	if len(want) == 0 {
		return 0, "", nil
	}
	tmp := transcript + ".cvc5.smt2"
	if err := os.WriteFile(tmp, script.Bytes(), 0o644); err != nil {
		return 0, "", err
	}
	if os.Getenv("GOSYM_KEEP_SMT") == "" {
		defer os.Remove(tmp)
	}
	cmd := exec.Command("cvc5", "--incremental", "--tlimit-per=20000", tmp)
	out, err := cmd.CombinedOutput()
	var got []string
	for _, line := range strings.Split(string(out), "\n") {
		line = strings.TrimSpace(line)
		if line == "sat" || line == "unsat" || line == "unknown" {
			got = append(got, line)
		}
		if strings.HasPrefix(line, "(error") {
			return 0, "", fmt.Errorf("cvc5: %s", line)
		}
	}
	if len(got) != len(want) {
		return len(got), "", fmt.Errorf("cvc5 gave %d answers for %d queries (%v)", len(got), len(want), err)
	}
	for k := range want {
		if got[k] == "unknown" || want[k] == "unknown" {
			continue
		}
		if got[k] != want[k] {
			return len(got), fmt.Sprintf("query %d: z3 says %s, cvc5 says %s", k, want[k], got[k]), nil
		}
	}
	return len(got), "", nil
}

// choiceKey: the job and the values of the harness's choice variables (named #...) of a violation.
func choiceKey(v interp.Violation) string {
	var keys []string
	for k := range v.Model {
		if strings.HasPrefix(k, "#") {
			keys = append(keys, k)
		}
	}
	sort.Strings(keys)
	var b strings.Builder
	b.WriteString(v.Job)
	for _, k := range keys {
		fmt.Fprintf(&b, " %s=%d", k, v.Model[k])
	}
	return b.String()
}

func sanitizeJob(s string) string {
	return strings.Map(func(r rune) rune {
		if r >= 'a' && r <= 'z' || r >= 'A' && r <= 'Z' || r >= '0' && r <= '9' || r == '-' || r == '_' {
			return r
		}
		return '_'
	}, s)
}
