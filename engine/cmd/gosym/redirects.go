package main

import "gosym/interp"

// The redirect table: non-spok functions replaced by models of /verif/harness/{vfs,stubs}.
// Only functions that occur in the loaded program are installed; the installed ones are
// listed in every evidence file ("stubs").
func stdRedirects() map[string]string {
	v := modulePath + "/" + overlayDir + "/vfs."
	s := modulePath + "/" + overlayDir + "/stubs."
	return map[string]string{
		"os.Stat":                v + "Stat",
		"os.Lstat":               v + "Stat",
		"os.ReadFile":            v + "ReadFile",
		"os.WriteFile":           v + "WriteFile",
		"os.MkdirAll":            v + "MkdirAll",
		"os.ReadDir":             v + "ReadDir",
		"os.RemoveAll":           v + "RemoveAll",
		"os.Getwd":               v + "Getwd",
		"os.UserHomeDir":         v + "UserHomeDir",
		"os.Environ":             v + "Environ",
		"os.Getenv":              v + "Getenv",
		"os.Open":                v + "Open",
		"os.OpenFile":            v + "OpenFile",
		"(*os.File).Stat":        v + "FileStat",
		"(*os.File).Close":       v + "FileClose",
		"(*os.File).WriteTo":     v + "FileWriteTo",
		"(*os.File).Read":        v + "FileRead",
		"(*os.File).Write":       v + "FileWrite",
		"(*os.File).WriteString": v + "FileWriteString",
		"(os.dirFS).Open":        v + "DirFSOpen",
		"(os.dirFS).Stat":        v + "DirFSStat",
		"(os.dirFS).ReadDir":     v + "DirFSReadDir",
		"(os.dirFS).ReadFile":    v + "DirFSReadFile",

		"runtime.NumCPU":          s + "NumCPU",
		"crypto/sha256.New":       s + "SHA256New",
		"encoding/json.Marshal":   s + "JSONMarshal",
		"encoding/json.Unmarshal": s + "JSONUnmarshal",

		"text/template.New":                        s + "TemplateNew",
		"(*text/template.Template).Parse":          s + "TemplateParse",
		"(*text/template.Template).Execute":        s + "TemplateExecute",
		"github.com/fatih/color.New":               s + "ColorNew",
		"(*github.com/fatih/color.Color).Fprintln": s + "ColorFprintln",
		"(*github.com/fatih/color.Color).Fprintf":  s + "ColorFprintf",
		"(*github.com/fatih/color.Color).Fprint":   s + "ColorFprint",
		"(*github.com/fatih/color.Color).Sprint":   s + "ColorSprint",
		"(*github.com/fatih/color.Color).Sprintf":  s + "ColorSprintf",
		"github.com/FollowTheProcess/msg.Fsuccess": s + "MsgF",
		"github.com/FollowTheProcess/msg.Fwarn":    s + "MsgF",
		"github.com/FollowTheProcess/msg.Finfo":    s + "MsgF",
		"github.com/FollowTheProcess/msg.Ferror":   s + "MsgF",
		"github.com/FollowTheProcess/msg.Ftitle":   s + "MsgF",
		"github.com/FollowTheProcess/msg.Error":    s + "MsgError",

		"github.com/lithammer/fuzzysearch/fuzzy.RankFindNormalizedFold": s + "FuzzyRank",

		"github.com/FollowTheProcess/spok/logger.NewZapLogger":       s + "NewLogger",
		"(*github.com/FollowTheProcess/spok/logger.ZapLogger).Debug": s + "LoggerDebug",
		"(*github.com/FollowTheProcess/spok/logger.ZapLogger).Sync":  s + "LoggerSync",
		"github.com/joho/godotenv.Load":                              s + "DotenvLoad",

		"mvdan.cc/sh/v3/interp.Env":             s + "InterpEnv",
		"mvdan.cc/sh/v3/interp.StdIO":           s + "InterpStdIO",
		"mvdan.cc/sh/v3/interp.Params":          s + "InterpParams",
		"mvdan.cc/sh/v3/interp.Dir":             s + "InterpDir",
		"mvdan.cc/sh/v3/interp.ExecHandlers":    s + "InterpExecHandlers",
		"mvdan.cc/sh/v3/interp.OpenHandler":     s + "InterpOpenHandler",
		"mvdan.cc/sh/v3/interp.New":             s + "InterpNew",
		"(*mvdan.cc/sh/v3/interp.Runner).Run":   s + "RunnerRun",
		"mvdan.cc/sh/v3/syntax.NewParser":       s + "SyntaxNewParser",
		"(*mvdan.cc/sh/v3/syntax.Parser).Parse": s + "ParserParse",
	}
}

func addRedirects(cfg *interp.Config) {
	for k, v := range stdRedirects() {
		cfg.Redirects[k] = v
	}
}
