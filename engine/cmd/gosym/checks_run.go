package main

// Checks around file.SpokFile.Run: cache / run state machine (C01, C02, C14, C10).

import (
	"fmt"
	"strings"
	"strconv"

	"gosym/interp"
)

type histShape struct {
	name      string
	spokfile  string
	files     string
	globfiles string
	requests  string
	writes    string // "A>b.txt": the commands of A may rewrite b.txt while they run
}

var histShapes = []histShape{
	{"one-file-task", "task A(\"a.txt\") {\n\tcmdA\n}\n", "a.txt", "", "A", ""},
	{"file-task+no-dep-task", "task A(\"a.txt\") {\n\tcmdA\n}\ntask B() {\n\tcmdB\n}\n", "a.txt", "", "A;B;A,B;B,A", ""},
	{"two-file-tasks", "task A(\"a.txt\") {\n\tcmdA\n}\ntask B(\"b.txt\") {\n\tcmdB\n}\n", "a.txt,b.txt", "", "A;B;A,B", ""},
	{"shared-file", "task A(\"a.txt\") {\n\tcmdA\n}\ntask B(\"a.txt\") {\n\tcmdB1\n\tcmdB2\n}\n", "a.txt", "", "A;B;A,B", ""},
	{"glob-task", "task A(\"*.g\") {\n\tcmdA\n}\n", "", "x.g,y.g", "A", ""},
	{"chain", "task A(\"a.txt\") {\n\tcmdA\n}\ntask B(A, \"b.txt\") {\n\tcmdB\n}\n", "a.txt,b.txt", "", "A;B", ""},
	{"glob+file", "task A(\"*.g\", \"a.txt\") {\n\tcmdA\n}\ntask B() {}\n", "a.txt", "x.g", "A;A,B", ""},
	// a task with a glob that runs only as somebody else's dependency (a seeded change expanded the
	// globs of the requested tasks only, DESIGN.md 9.5)
	// a command of A may rewrite the file B depends on, in the same run (a formatter or generator
	// before its consumer): B must be recorded against what it actually ran on (a seeded change
	// that read every file once per run went unnoticed while commands had no effects, DESIGN.md 9.5)
	{"chain+rewrite", "task A(\"a.txt\") {\n\tcmdA\n}\ntask B(A, \"b.txt\") {\n\tcmdB\n}\n", "a.txt,b.txt", "", "A;B", "A>b.txt"},
	// ... and the rewritten file is a dependency of both (fmt("src") then test(fmt, "src")): no
	// claim about A in such a step, every claim about B
	{"shared-file+rewrite", "task A(\"a.txt\") {\n\tcmdA\n}\ntask B(A, \"a.txt\") {\n\tcmdB\n}\n", "a.txt", "", "A;B", "A>a.txt"},
	{"glob-in-dependency", "task A(\"*.g\", \"a.txt\") {\n\tcmdA\n}\ntask B(A) {\n\tcmdB\n}\n", "a.txt", "x.g", "A;B", ""},
}

var histShapesThorough = []histShape{
	{"three-tasks", "task A(\"a.txt\") {\n\tcmdA\n}\ntask B(\"b.txt\") {\n\tcmdB\n}\ntask C() {\n\tcmdC\n}\n", "a.txt,b.txt", "", "A;B;C;A,B;A,C;B,C;A,B,C", ""},
	{"three-chain", "task A(\"a.txt\") {\n\tcmdA\n}\ntask B(A, \"a.txt\") {\n\tcmdB\n}\ntask C(B) {\n\tcmdC\n}\n", "a.txt", "", "A;B;C;C,A", ""},
	{"two-globs", "task A(\"*.g\") {\n\tcmdA\n}\ntask B(\"*.g\", \"b.txt\") {\n\tcmdB\n}\n", "b.txt", "x.g,y.g", "A;B;A,B", ""},
}

func histJobs(shapes []histShape, steps int, force, crash, rm int) []jobSpec {
	return histJobsX(shapes, steps, force, crash, rm, 0, 0)
}

// histJobsX: runerr = 1 lets the runner itself fail on any command (an error, not an exit status);
// missing = 1 lets each literal dependency file be absent at each step (hashing then fails).
func histJobsX(shapes []histShape, steps int, force, crash, rm, runerr, missing int) []jobSpec {
	var out []jobSpec
	for _, sh := range shapes {
		p := map[string]string{"spokfile": sh.spokfile, "files": sh.files, "globfiles": sh.globfiles, "requests": sh.requests,
			"steps": strconv.Itoa(steps), "force": strconv.Itoa(force), "crash": strconv.Itoa(crash), "rmcache": strconv.Itoa(rm),
			"runerr": strconv.Itoa(runerr), "missing": strconv.Itoa(missing), "writes": sh.writes}
		if crash == 1 {
			// a run writes the cache file at most once per task (the write-ahead that forgets a
			// digest about to be superseded; or the placeholder, once) plus the final write: any
			// of them may be the torn one
			p["maxwrite"] = strconv.Itoa(strings.Count(sh.spokfile, "task "))
		}
		name := fmt.Sprintf("History[%s steps=%d force=%d crash=%d]", sh.name, steps, force, crash)
		if runerr+missing > 0 {
			name = fmt.Sprintf("History[%s steps=%d force=%d crash=%d runerr=%d missing=%d]", sh.name, steps, force, crash, runerr, missing)
		}
		out = append(out, jobSpec{Name: name, Func: "History", Params: p, Opts: interp.Options{Budget: 20_000_000}})
	}
	return out
}

// indJobs: the inductive-step harness on each shape.
func indJobs(shapes []histShape) []jobSpec {
	var out []jobSpec
	for _, sh := range shapes {
		p := map[string]string{"spokfile": sh.spokfile, "files": sh.files, "globfiles": sh.globfiles, "requests": sh.requests, "force": "1", "writes": sh.writes}
		out = append(out, jobSpec{Name: fmt.Sprintf("InductiveStep[%s]", sh.name), Pkg: "indh", Func: "Step", Params: p, Opts: interp.Options{Budget: 40_000_000}})
		if strings.Count(sh.spokfile, "task ") > 1 {
			// the invocation may also stop part-way: the runner fails on a command, a literal
			// dependency file is missing
			q := map[string]string{"spokfile": sh.spokfile, "files": sh.files, "globfiles": sh.globfiles, "requests": sh.requests, "force": "1", "runerr": "1", "missing": "1", "writes": sh.writes}
			out = append(out, jobSpec{Name: fmt.Sprintf("InductiveStep[%s runerr=1 missing=1]", sh.name), Pkg: "indh", Func: "Step", Params: q, Opts: interp.Options{Budget: 40_000_000}})
		}
	}
	return out
}

var runAssumptions = []string{
	"file system: in-memory model (harness/vfs) behind os.Stat/ReadFile/WriteFile/MkdirAll/Open/(*File).Stat/WriteTo/Close, os.DirFS; WriteFile = truncate then write",
	"SHA-256: an injective function of its input (interning model, harness/stubs): equal inputs give equal digests, different inputs different digests ('up to collisions')",
	"encoding/json of the cache map: snapshot model; only a complete document parses (A-JSON: no proper prefix of a JSON object is valid JSON)",
	"text/template: {{.NAME}} substitution model; fatih/color: pass-through; logger: no-op; fuzzy matcher: no suggestion",
	"task commands are opaque: shell.Runner is the harness's recording runner returning a symbolic exit status per command",
	"goroutines of hash.Concurrent.Hash run on the cooperative scheduler with a fixed run-until-block schedule (their interleavings are C04/C18's subject)",
	"map iteration order: insertion order (spok's Run depends on it only through dag.Sort, which is C03's subject)",
	"file contents are one symbolic byte per (file, step): edits, reverts and no-ops are all fillings of these bytes",
}

func histCheck(id, title string, force, crash int, explain string) *checkDef {
	return &checkDef{
		ID: id, Pkg: "runh", Level: "other", NativeCheck: true, UseStubs: true, OnlyPrefix: id + "/",
		Explanation: "Bounded symbolic execution of histories of invocations of the real file.New + SpokFile.Run (buildGraph, dag.Sort, run, cache.Init/Load/Dump/Get/Set, hash.Concurrent.Hash, task.Task.Run) from an empty project: per step the dependency file contents (one symbolic byte each), the presence of glob-matched files, removal of the cache, --force, the request list and every command's exit status are symbolic; " +
			"a ghost record of 'inputs at the last successful completion' is kept by the harness and the step assertions are discharged by the solver. " + explain +
			" In addition the inductive step (package indh): from an arbitrary state satisfying the representation invariant (every recorded digest is the real digest of the task's inputs at its last success; every such success is recorded unless the task has since failed on exactly those inputs, in which case nothing is recorded) one invocation with symbolic edits, request, --force and statuses satisfies the step assertions and re-establishes the invariant, so the step assertions hold for histories of any length made of complete invocations." +
			" Violating histories are replayed natively in a temporary directory with real files, real SHA-256, real JSON and the real code.",
		Bounds: func(tier string) string {
			if crash == 1 {
				if tier == "thorough" {
					return fmt.Sprintf("one killed step (before/after any command; before, at truncation, at a proper prefix or after completion of any write of the cache file) in: every 2-step history of %d shapes, 3-step histories of 4 shapes, 4-step histories of the one-task shape, and 3-step histories with --force and cache removal on the one-task shape", len(histShapes))
				}
				return fmt.Sprintf("one killed step (before/after any command; before, at truncation, at a proper prefix or after completion of any write of the cache file) in: every 2-step history of %d shapes and every 3-step history of the one-task shape; no --force, no cache removal", len(histShapes))
			}
			if tier == "thorough" {
				return fmt.Sprintf("the quick bound (%d shapes of 1-2 tasks: every 2-step history with all features; 3-step histories with one feature family at a time), plus: 3-step histories of the two-file-tasks, shared-file, chain, glob-task, glob+file and three-chain shapes (plain), of file-task+no-dep-task with --force and with cache removal, of two-file-tasks and chain with runner errors; every 2-step history with all features of the three-tasks and three-chain shapes; every 4-step history with all features of the one-task shape; the inductive step on all quick shapes and on two three-task shapes, also with stopped runs (runner error, missing dependency file) and commands that rewrite later tasks' inputs", len(histShapes))
			}
			return fmt.Sprintf("%d spokfile shapes (1-2 tasks): every 2-step history with all features; 3-step histories with one feature family at a time (plain on 2 shapes; --force and cache removal on the one-task shape)", len(histShapes))
		},
		Outside: []string{
			"longer histories, other spokfile shapes, more than one changed byte per file (contents are abstracted to one byte)",
			"a missing literal dependency file only as the cause of a run that stops with an error (jobs with missing=1); hashing a missing file is C18's subject",
			"what the commands themselves do; the shell",
		},
		Assumptions:  runAssumptions,
		EndSignature: map[string]string{"crash": id + "/panic", "budget": id + "/non-termination", "deadlock": id + "/deadlock"},
		Jobs: func(tier string, seed int64) []jobSpec {
			var out []jobSpec
			byName := func(names ...string) []histShape {
				var r []histShape
				for _, n := range names {
					for _, s := range append(append([]histShape{}, histShapes...), histShapesThorough...) {
						if s.name == n {
							r = append(r, s)
						}
					}
				}
				return r
			}
			if crash == 1 {
				// C10: one killed step; --force and cache removal are left to C01/C14
				out = append(out, histJobs(histShapes, 2, 0, 1, 0)...)
				out = append(out, histJobs(byName("one-file-task"), 3, 0, 1, 0)...)
				if tier == "thorough" {
					out = append(out, histJobs(byName("two-file-tasks", "file-task+no-dep-task", "chain"), 3, 0, 1, 0)...)
					out = append(out, histJobs(byName("one-file-task"), 4, 0, 1, 0)...)
					out = append(out, histJobs(byName("one-file-task"), 3, 1, 1, 1)...)
				}
				return out
			}
			// the inductive step: one invocation from an arbitrary state satisfying the
			// representation invariant (package indh) - covers histories of any length
			indShapes := histShapes
			if tier == "thorough" {
				// the three-task shapes; not two-globs: its inductive step (two tasks, each with an
				// arbitrary earlier state of two glob files) ran for more than 40 minutes
				// without finishing and is not claimed
				indShapes = append(append([]histShape{}, histShapes...), byName("three-tasks", "three-chain")...)
			}
			out = append(out, indJobs(indShapes)...)
			// every feature together on short histories
			out = append(out, histJobs(histShapes, 2, 1, 0, 1)...)
			// three steps with one feature at a time
			out = append(out, histJobs(byName("one-file-task", "file-task+no-dep-task"), 3, 0, 0, 0)...)
			out = append(out, histJobs(byName("one-file-task"), 3, 1, 0, 0)...)
			out = append(out, histJobs(byName("one-file-task"), 3, 0, 0, 1)...)
			// runs that stop with an error part-way (the runner cannot run a command; a literal
			// dependency file is missing): what earlier tasks of that run recorded must survive
			out = append(out, histJobsX(byName("two-file-tasks", "chain"), 2, 0, 0, 0, 1, 1)...)
			if tier == "thorough" {
				out = append(out, histJobsX(byName("two-file-tasks"), 3, 0, 0, 0, 1, 0)...)
				out = append(out, histJobsX(byName("chain"), 3, 0, 0, 0, 1, 0)...)
				out = append(out, histJobs(byName("two-file-tasks"), 3, 0, 0, 0)...)
				// Each of the following was timed on its own before being registered (23 - 125 s).
				// Left out because they did not finish within 300 s on their own: 3-step histories
				// with --force of the chain and two-file-tasks shapes; because they were close to it:
				// shared-file with --force (261 s), two-file-tasks with cache removal (281 s); not
				// timed: 2-step histories of the two-globs shape, 3-step histories of three-tasks.
				out = append(out, histJobs(byName("shared-file", "chain", "glob-task", "glob+file"), 3, 0, 0, 0)...)
				out = append(out, histJobs(byName("file-task+no-dep-task"), 3, 1, 0, 0)...)
				out = append(out, histJobs(byName("file-task+no-dep-task"), 3, 0, 0, 1)...)
				out = append(out, histJobs(byName("three-tasks", "three-chain"), 2, 1, 0, 1)...)
				out = append(out, histJobs(byName("three-chain"), 3, 0, 0, 0)...)
				out = append(out, histJobs(byName("one-file-task"), 4, 1, 0, 1)...)
			}
			return out
		},
	}
}

func init() {
	c01 := histCheck("C01", "", 1, 0, "C01: whenever a result is reported skipped, the task's current dependency paths and contents equal those recorded at its last successful completion and the cache was not removed since.")
	// a stale digest left by a forced step of the inductive harness is C14's wording of the same thing
	c01.AlsoSigs = []string{"C14/a-forced-run-damaged-the-cache/recorded-digest-is-not-that-of-the-last-success"}
	register(c01)
	register(histCheck("C02", "", 1, 0, "C02: a task with a matching file dependency whose inputs equal those of its last success (cache not removed, no --force) must be skipped and run no command; a task without file dependencies is never skipped."))
	c14 := histCheck("C14", "", 1, 0, "C14: under --force no task of the run is skipped and all commands run; and no later unforced run skips a task whose inputs differ from its last success because of a forced run.")
	// the second half of C14 is C01's step assertion restricted to staleness caused by a forced run
	c14.AlsoSigs = []string{"C01/skipped-on-stale-digest/last-success-not-recorded-because-the-run-was-forced"}
	register(c14)
	register(histCheck("C10", "", 0, 1, "C10: one step of the history may be killed before or after any command or at any stage of a write of the cache file (before, truncated, proper prefix, complete); no later step may skip a task whose inputs differ from its last successful completion (an explicit error about the cache is acceptable)."))
}

func orderJob(n, reqlen, undefined, dup, fail int) jobSpec {
	p := map[string]string{"n": strconv.Itoa(n), "reqlen": strconv.Itoa(reqlen), "undefined": strconv.Itoa(undefined), "dup": strconv.Itoa(dup), "fail": strconv.Itoa(fail)}
	return jobSpec{Name: fmt.Sprintf("Order[n=%d reqlen=%d undefined=%d dup=%d fail=%d]", n, reqlen, undefined, dup, fail), Func: "Order", Params: p,
		Opts: interp.Options{Budget: 20_000_000, MapOrder: true, MapOrderPkgs: []string{"github.com/FollowTheProcess/collections"}}}
}

func init() {
	register(&checkDef{
		ID: "C03", Pkg: "runh", Level: "other", NativeCheck: true, NativeRepeat: 20, UseStubs: true, OnlyPrefix: "C03/",
		Explanation: "Bounded symbolic execution of the real file.New (duplicate detection) and SpokFile.Run (buildGraph, dag.New/AddVertex/AddEdge/Sort with its set and queue, run) on task graphs whose edge set, including self-loops, is symbolic (every subset of the n*n directed edges is a path), with a symbolic request list, an optional dependency on / request of an undefined name, an optional duplicate definition, an optional failing command, and every iteration order of the maps inside the dag package (a decision per range step). " +
			"A reference closure/cycle computation in the harness says whether the selection is an error case; the real code must then return an error and run nothing, or run exactly the closure, each task once, dependencies first, with results in execution order.",
		Bounds: func(tier string) string {
			if tier == "thorough" {
				return "n=3: all 512 edge sets x request lists of length 1..2 over {a,b,c,undefined} x undefined dependency x duplicate x failing task; n=4: all 65536 edge sets x single requests; all dag-internal map orders"
			}
			return "n=3: all 512 edge sets x single requests over {a,b,c,undefined} x undefined dependency x duplicate, and x request lists of length 2 without the error features; n=2 with a failing task; all dag-internal map orders"
		},
		Outside:      []string{"graphs of more than 4 tasks, request lists longer than 2", "map iteration orders outside the dag/set/queue packages (insertion order there)", "tasks have one command and no file dependencies (the cache plays no role)"},
		Assumptions:  runAssumptions,
		EndSignature: map[string]string{"crash": "C03/panic", "budget": "C03/non-termination", "deadlock": "C03/deadlock"},
		Jobs: func(tier string, seed int64) []jobSpec {
			if tier == "thorough" {
				return []jobSpec{orderJob(3, 1, 1, 1, 1), orderJob(3, 2, 1, 0, 0), orderJob(4, 1, 0, 0, 0), orderJob(2, 2, 1, 1, 1)}
			}
			return []jobSpec{orderJob(3, 1, 1, 1, 0), orderJob(3, 2, 0, 0, 0), orderJob(2, 2, 1, 1, 1)}
		},
	})
}

func init() {
	register(&checkDef{
		ID: "C17", Pkg: "runh", Level: "other", NativeCheck: true, UseStubs: true, OnlyPrefix: "C17/",
		Explanation: "Bounded exhaustive symbolic execution of the real file.Find over directory chains in the in-memory file system: per level an entry sorting before 'spokfile', a regular file or a directory named spokfile, an entry sorting after it are symbolic; start level and stop (each level, the root, an unrelated directory) are symbolic choices. " +
			"Non-termination is decided, not sampled: a path that exceeds its instruction budget is an unwinding failure, reported as a violation only when the native replay of the same configuration hangs under its watchdog. All variables are booleans/choices, so inside the bound this is complete enumeration through the real code.",
		Bounds: func(tier string) string {
			if tier == "thorough" {
				return "chains of depth 1..4, all 12^depth level contents x every start level x stop in {each level, root, unrelated directory}; up to depth 3 also with the start directory given relative to a working directory at or above it (termination and soundness of the result only)"
			}
			return "chains of depth 1..3, all 12^depth level contents x every start level x stop in {each level, root, unrelated directory}; up to depth 2 also with the start directory given relative to a working directory at or above it (termination and soundness of the result only)"
		},
		Outside:      []string{"deeper chains; symbolic links; permission errors; directories above the chain contain no spokfile"},
		Assumptions:  []string{"os.ReadDir is the in-memory model (entries sorted by name, as documented); filepath.Abs/Join/Dir run from their real source", "engine trusted base: go/ssa, the forked interpreter"},
		EndSignature: map[string]string{"crash": "C17/panic", "budget": "C17/does-not-terminate", "deadlock": "C17/deadlock"},
		Jobs: func(tier string, seed int64) []jobSpec {
			max := 3
			if tier == "thorough" {
				max = 4
			}
			var out []jobSpec
			for d := 1; d <= max; d++ {
				// relative start directories up to depth max-1, absolute ones only at the deepest level
				rel := "1"
				if d == max {
					rel = "0"
				}
				out = append(out, jobSpec{Name: fmt.Sprintf("Find[depth=%d relative=%s]", d, rel), Func: "Find", Params: map[string]string{"depth": strconv.Itoa(d), "relative": rel}, Opts: interp.Options{Budget: 400_000}})
			}
			return out
		},
	})
}

// lengthSweep: lists of 0..maxlen readable files under each of the given worker counts, one fixed
// (run-until-block) schedule; the native replay runs under taskset with that many CPUs.
func lengthSweep(workers []int, maxlen int) []jobSpec {
	var out []jobSpec
	for _, k := range workers {
		p := map[string]string{"taskset": strconv.Itoa(k), "maxlen": strconv.Itoa(maxlen)}
		out = append(out, jobSpec{Name: fmt.Sprintf("HashClean[lengths 0..%d, %d workers]", maxlen, k), Func: "HashClean", Params: p, Opts: interp.Options{Budget: 20_000_000}})
	}
	return out
}

func hashJob(fn string, n, maxcpus, preempt int) jobSpec { return hashJobB(fn, n, maxcpus, preempt, 1) }

// hashJobB: partB = 0 restricts HashDet to part A (order/CPU/schedule independence) with the
// reference run on one worker.
func hashJobB(fn string, n, maxcpus, preempt, partB int) jobSpec {
	p := map[string]string{"n": strconv.Itoa(n), "maxcpus": strconv.Itoa(maxcpus), "partB": strconv.Itoa(partB)}
	return jobSpec{Name: fmt.Sprintf("%s[n=%d cpus<=%d preemptions<=%d partB=%d]", fn, n, maxcpus, preempt, partB), Func: fn, Params: p,
		Opts: interp.Options{Budget: 5_000_000, Sched: interp.SchedExplore, MaxPreempt: preempt}}
}

// hashJobL: as hashJob with file a's content calen bytes long (file ab's stays 1 byte), so that the
// path and content of one file, written one after the other, can spell those of the other.
func hashJobL(fn string, n, maxcpus, preempt, calen int) jobSpec {
	j := hashJobB(fn, n, maxcpus, preempt, 1)
	j.Params["calen"] = strconv.Itoa(calen)
	j.Name = fmt.Sprintf("%s[n=%d cpus<=%d preemptions<=%d content_a=%d bytes]", fn, n, maxcpus, preempt, calen)
	return j
}

var hashAssumptions = []string{
	"scheduling: interleaving semantics on the engine's cooperative scheduler; context switches only at synchronising operations (channel send/receive/close, WaitGroup Add/Done/Wait, go statements); every choice of the next goroutine when the running one blocks or exits is explored, plus at most the stated number of preemptive switches per schedule",
	"data races on plain memory are not modelled (no happens-before tracking): the 'racing on memory' clause of C18 is not decided",
	"file system: in-memory model; a missing file fails in os.Open, a 'failing' file opens and fails when read; SHA-256: injective interning model; runtime.NumCPU returns the symbolic worker count",
	"engine trusted base: go/ssa, the forked interpreter, its channel/WaitGroup implementation",
}

func init() {
	register(&checkDef{
		ID: "C18", Pkg: "runh", Level: "model_checking", NativeCheck: true, NativeRepeat: 10, UseStubs: true, OnlyPrefix: "C18/",
		Explanation: "Bounded model checking of the real hash.Concurrent.Hash and worker (go/ssa, interpreted) over symbolic path lists drawn from a pool {two regular files with prefix-related names, a nested file, an empty file, a directory, a missing path, a file whose read fails}, a symbolic worker count, and the schedules of main, feeder, closer and worker goroutines: " +
			"no panic in any goroutine, no deadlock, termination, an error and no digest whenever an entry cannot be opened or read, and no goroutine left behind after Hash returns.",
		Bounds: func(tier string) string {
			if tier == "thorough" {
				return "lists over a pool of 7 entries (duplicates allowed): length 0..1 x 1..3 CPUs x schedules with at most 2 preemptions; length 2 x 1..3 CPUs x all blocking-point choices, x 1..2 CPUs x at most 1 preemption; length 3 x one worker x all blocking-point choices; length sweep: 0..24 readable files x 2..8 workers under one fixed schedule (first written as 0..3 x 1..3 x 1-2 preemptions, which did not finish: (2,2,2) was killed after 20 minutes)"
			}
			return "lists of length 0..2 (duplicates allowed) over a pool of 7 entries x 1..2 CPUs x all schedules with at most 1 preemption (length 2: no preemption, all blocking-point choices); length sweep: 0..9 readable files x 3..5 workers under one fixed schedule"
		},
		Outside:      []string{"lists longer than 3, lists of length 3 with more than one worker, more than 3 workers, schedules with more preemptions", "data races (see assumptions); dangling symbolic links; real parallelism"},
		Assumptions:  hashAssumptions,
		EndSignature: map[string]string{"crash": "C18/crash", "budget": "C18/non-termination", "deadlock": "C18/deadlock"},
		Jobs: func(tier string, seed int64) []jobSpec {
			if tier == "thorough" {
				return append([]jobSpec{hashJob("HashClean", 0, 3, 2), hashJob("HashClean", 1, 3, 2), hashJob("HashClean", 2, 3, 0), hashJob("HashClean", 2, 1, 1), hashJob("HashClean", 3, 1, 0), hashJob("HashClean", 2, 2, 1)}, lengthSweep([]int{2, 3, 4, 5, 6, 7, 8}, 24)...)
			}
			return append([]jobSpec{hashJob("HashClean", 0, 2, 1), hashJob("HashClean", 1, 2, 1), hashJob("HashClean", 2, 2, 0)}, lengthSweep([]int{3, 4, 5}, 9)...)
		},
	})
	register(&checkDef{
		ID: "C04", Pkg: "runh", Level: "model_checking", NativeCheck: true, UseStubs: true, OnlyPrefix: "C04/",
		Explanation: "Bounded model checking of the real hash.Concurrent.Hash (worker pool, sortByteSlices, sort.Stable, bytes.Join/Compare from their real SSA) with SHA-256 as an injective function: (A) for a symbolic list over a pool of files and a directory, the digest of the list equals the digest of a permutation of it without its directories under another worker count, on every explored schedule; " +
			"(B) dropping a file, adding a file, renaming a file (also to a name that is a prefix extension, also with identical content) or editing a file's (symbolic) content changes the digest, and re-writing the same bytes does not.",
		Bounds: func(tier string) string {
			if tier == "thorough" {
				return "lists of length 1..3 over a pool of 5 entries (names a, ab, sub/b, an empty file, a directory; duplicates allowed): length 1 with 1..3 CPUs and 1 preemption; length 2 with 1..2 CPUs (A and B, no preemption; A only with 1 preemption) and with one worker and 1 preemption; length 3 with 1..2 CPUs part A only and with one worker A and B, no preemption; file contents: one symbolic byte each, and length 1 with one worker again with two symbolic bytes in file a (so that path+content of a can spell path+content of ab)"
			}
			return "lists of length 1..2 over a pool of 5 entries: length 1 with 1..2 CPUs and schedules with at most 1 preemption (parts A and B); length 2 with one worker, all blocking-point choices (A and B); length 2 with 1..2 CPUs, all blocking-point choices, part A only (reference run on one worker); file contents: one symbolic byte each, and length 1 with one worker again with two symbolic bytes in file a (so that path+content of a can spell path+content of ab)"
		},
		Outside:      []string{"SHA-256 itself (abstracted as injective, digests assumed not to look like path text)", "longer lists, more workers, more preemptions; duplicates are compared as multisets"},
		Assumptions:  hashAssumptions,
		EndSignature: map[string]string{"crash": "C04/panic", "budget": "C04/non-termination", "deadlock": "C04/deadlock"},
		Jobs: func(tier string, seed int64) []jobSpec {
			if tier == "thorough" {
				return []jobSpec{hashJob("HashDet", 1, 3, 1), hashJob("HashDet", 2, 2, 0), hashJob("HashDet", 2, 1, 1), hashJobB("HashDet", 2, 2, 1, 0), hashJobB("HashDet", 3, 2, 0, 0), hashJob("HashDet", 3, 1, 0), hashJobL("HashDet", 1, 1, 0, 2)}
			}
			return []jobSpec{hashJob("HashDet", 1, 2, 1), hashJob("HashDet", 2, 1, 0), hashJobB("HashDet", 2, 2, 0, 0), hashJobL("HashDet", 1, 1, 0, 2)}
		},
	})
}

func init() {
	nPatterns := 20
	register(&checkDef{
		ID: "C05", Pkg: "runh", Level: "other", NativeCheck: true, UseStubs: true, OnlyPrefix: "C05/",
		Explanation: "Bounded exhaustive symbolic execution of the real file.New + SpokFile.Run (expandGlobs, expandGlob with its callback) and of the third-party doublestar.GlobWalk from its real SSA over os.DirFS of the in-memory file system: the tree is every subset of a pool of candidate paths (top-level and nested files, entries whose first byte is '.' or a letter by a symbolic choice, names sorting before and after each other), the pattern is one of a fixed list. " +
			"The expansion, as a set, must equal {p in tree (files and directories) : doublestar.Match(pattern, p) and p does not begin with '.'}, and a second expansion of the unchanged tree must give the same list; with two tasks carrying two patterns each pattern's expansion must still be exactly that set. All variables are booleans/choices: complete enumeration inside the bound.",
		Bounds: func(tier string) string {
			if tier == "thorough" {
				return fmt.Sprintf("all subsets of a pool of %d candidate paths (3 of them hidden-or-not) x %d patterns; two tasks with two patterns: all %d ordered pairs of distinct patterns x all subsets of the first 7 candidate paths; every pattern also with the project in a directory named 'p [v2]{x}' (first 4 candidate paths)", 9, nPatterns, nPatterns*(nPatterns-1))
			}
			return "all subsets of the first 7 candidate paths (2 of them hidden-or-not) x 8 patterns; two tasks with two patterns: 5 overlapping pairs x all subsets of the first 5 candidate paths; every pattern also with the project in a directory named 'p [v2]{x}' (first 4 candidate paths)"
		},
		Outside:      []string{"other trees and patterns; symbolic links; patterns without '*' are not globs for spok", "doublestar.Match is the reference for 'the relative path matches the pattern' (the library's contract, not spok's)"},
		Assumptions:  runAssumptions,
		EndSignature: map[string]string{"crash": "C05/panic", "budget": "C05/non-termination", "deadlock": "C05/deadlock"},
		Jobs: func(tier string, seed int64) []jobSpec {
			pool, pats := 7, []int{0, 1, 2, 3, 4, 5, 8, 10}
			if tier == "thorough" {
				pool = 9
				pats = nil
				for k := 0; k < nPatterns; k++ {
					pats = append(pats, k)
				}
			}
			var out []jobSpec
			for _, k := range pats {
				out = append(out, jobSpec{Name: fmt.Sprintf("Glob[pattern=%d pool=%d]", k, pool), Func: "Glob", Params: map[string]string{"pattern": strconv.Itoa(k), "pool": strconv.Itoa(pool)}, Opts: interp.Options{Budget: 10_000_000}})
			}
			// the project in a directory whose own name contains glob metacharacters
			for _, k := range pats {
				out = append(out, jobSpec{Name: fmt.Sprintf("Glob[pattern=%d pool=4 oddroot]", k), Func: "Glob", Params: map[string]string{"pattern": strconv.Itoa(k), "pool": "4", "oddroot": "1"}, Opts: interp.Options{Budget: 10_000_000}})
			}
			// two tasks with two patterns: what a pattern denotes does not depend on its neighbours
			pairs, ppool := [][2]int{{0, 1}, {1, 0}, {2, 5}, {10, 4}, {8, 11}}, 5
			if tier == "thorough" {
				pairs, ppool = nil, 7
				for a := 0; a < nPatterns; a++ {
					for b := 0; b < nPatterns; b++ {
						if a != b {
							pairs = append(pairs, [2]int{a, b})
						}
					}
				}
			}
			for _, pr := range pairs {
				out = append(out, jobSpec{Name: fmt.Sprintf("Glob[patterns=%d+%d pool=%d]", pr[0], pr[1], ppool), Func: "Glob", Params: map[string]string{"pattern": strconv.Itoa(pr[0]), "pattern2": strconv.Itoa(pr[1]), "pool": strconv.Itoa(ppool)}, Opts: interp.Options{Budget: 10_000_000}})
			}
			return out
		},
	})
}
