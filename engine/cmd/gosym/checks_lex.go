package main

// Checks of the lexer / parser / formatter family.

import (
	"fmt"
	"go/ast"
	"go/parser"
	"go/token"
	"os"
	"path/filepath"
	"sort"
	"strconv"
	"strings"

	"gosym/interp"
)

const sep = "\x1f"

// skelF is the skeleton of F(N): one hole of n bytes.
func skelF(n int) string { return sep + strconv.Itoa(n) + sep }

// base programs for the neighbourhood skeletons (DESIGN.md 3.1)
var basePrograms = []string{
	"A := \"x\"\n# c\ntask t(\"f\", d) -> \"o\" {\n\tgo b {{.A}}\n}\n",
	"# doc\ntask a() {\n\tls\n}\n",
	"X := join(\"a\", \"b\")\ntask b(a, \"*.go\") -> (\"x\", Y) { go build }\n",
	"task t() -> X {\n\tone\n\ttwo\n}\n",
	"# c1\n# c2\nV := exec(\"git x\")\n\ntask z(\"a\", \"b\",) {}\n",
	"A := \"1\"\r\ntask w() {\r\n\tcmd\r\n}\r\n",
	"Ünï := \"é\"\ntask ü() { echo }\n",
	"task t(\"in\") -> (\"o1\", \"o2\") {\n    c1\n    c2 {{.V}} x\n}\n\n# tail\n",
}

func nbSkeletons(bases []string, k int, kinds string) []string {
	seen := map[string]bool{}
	var out []string
	for _, b := range bases {
		for p := 0; p <= len(b); p++ {
			for kk := 1; kk <= k; kk++ {
				if strings.Contains(kinds, "i") {
					s := b[:p] + sep + strconv.Itoa(kk) + sep + b[p:]
					if !seen[s] {
						seen[s] = true
						out = append(out, s)
					}
				}
				if strings.Contains(kinds, "o") && p+kk <= len(b) {
					s := b[:p] + sep + strconv.Itoa(kk) + sep + b[p+kk:]
					if !seen[s] {
						seen[s] = true
						out = append(out, s)
					}
				}
			}
		}
	}
	return out
}

// testCorpus collects string literals of the repository's lexer/parser/ast tests plus its spokfiles.
func testCorpus() []string {
	seen := map[string]bool{}
	var out []string
	add := func(s string) {
		if len(s) > 600 || seen[s] || strings.Contains(s, sep) {
			return
		}
		seen[s] = true
		out = append(out, s)
	}
	for _, f := range []string{"lexer/lexer_test.go", "parser/parser_test.go", "ast/ast_test.go"} {
		fset := token.NewFileSet()
		file, err := parser.ParseFile(fset, filepath.Join(repoDir, f), nil, 0)
		if err != nil {
			continue
		}
		ast.Inspect(file, func(n ast.Node) bool {
			if bl, ok := n.(*ast.BasicLit); ok && bl.Kind == token.STRING {
				if s, err := strconv.Unquote(bl.Value); err == nil {
					add(s)
				}
			}
			return true
		})
	}
	for _, f := range []string{"spokfile", "docs/spokfile"} {
		if data, err := os.ReadFile(filepath.Join(repoDir, f)); err == nil {
			add(string(data))
		}
	}
	for _, b := range basePrograms {
		add(b)
	}
	sort.Strings(out)
	return out
}

func corpusJobs(fn string) func() []jobSpec {
	return func() []jobSpec {
		var out []jobSpec
		for k, s := range testCorpus() {
			out = append(out, jobSpec{Name: fmt.Sprintf("corpus%d", k), Func: fn, Params: map[string]string{"skel": s}, Opts: interp.Options{Budget: 20_000_000}})
		}
		return out
	}
}

func skelJobs(fn string, skels []string, opts interp.Options) []jobSpec {
	var out []jobSpec
	for k, s := range skels {
		out = append(out, jobSpec{Name: fmt.Sprintf("%s#%d", fn, k), Func: fn, Params: map[string]string{"skel": s}, Opts: opts})
	}
	return out
}

func init() {
	register(&checkDef{
		ID: "C16", Pkg: "lexh", Level: "other", NativeCheck: true,
		Explanation: "Bounded symbolic execution of the real lexer (go/ssa of /repo's working tree, interpreted with SMT bit-vector terms for the input bytes). " +
			"Every explored path stands for all byte strings that drive the lexer the same way; on each path every assertion instance of the harness (token text is the input slice at its offset, offsets increasing and inside the input, only whitespace between tokens, line = 1 + newlines before the offset, EOF token at len(input)) is a solver query 'is there a filling of the symbolic bytes consistent with this path that violates it', discharged unsat. " +
			"Violating models are replayed natively with the identical harness before being reported.",
		Bounds: func(tier string) string {
			if tier == "thorough" {
				return "F(N<=6): every byte string of length <= 6 (all 256 byte values); NB(3): every 1..3-byte insertion and overwrite at every offset of 8 base programs"
			}
			return "F(N<=4): every byte string of length <= 4 (all 256 byte values); NB(1): every 1-byte insertion and overwrite at every offset of 4 base programs"
		},
		Outside: []string{
			"inputs longer than the bound or not a neighbourhood filling of a base program",
			"decoded runes above U+00FF other than the witnesses {U+0100,U+2003,U+2014,U+20AC,U+4E16,U+FFFD,U+10400,U+1F600} (rune-domain assumption where a unicode predicate is applied)",
			"error paths end when the lexer enters getLine to build the error token (all tokens before the error have been checked; construction of error tokens is C08's subject)",
		},
		Assumptions: []string{
			"unicode.IsSpace/IsLetter/IsPunct are summarised by evaluating the host Go standard library function on the finite rune domain (Latin-1 + 8 witnesses)",
			"scheduler: the lexer goroutine and the harness rendezvous over the unbuffered token channel; run-until-block schedule with the harness first (deterministic rendezvous)",
			"engine trusted base: go/ssa construction, the forked x/tools interpreter, the SMT encoding of Go integer/string operations, z3 5.1.0",
		},
		StopAt:       []string{"(*" + modulePath + "/lexer.Lexer).getLine"},
		EndSignature: map[string]string{"crash": "C16/panic", "budget": "C16/stream-not-finite", "deadlock": "C16/deadlock"},
		Corpus:       corpusJobs("C16"),
		Jobs: func(tier string, seed int64) []jobSpec {
			opts := interp.Options{Budget: 400_000}
			var skels []string
			if tier == "thorough" {
				for n := 0; n <= 6; n++ {
					skels = append(skels, skelF(n))
				}
				skels = append(skels, nbSkeletons(basePrograms, 3, "io")...)
			} else {
				for n := 0; n <= 4; n++ {
					skels = append(skels, skelF(n))
				}
				skels = append(skels, nbSkeletons(basePrograms[:4], 1, "io")...)
			}
			return skelJobs("C16", skels, opts)
		},
	})
}
