package main

// Checks of the lexer / parser / formatter family.

import (
	"fmt"
	"go/ast"
	"go/parser"
	"go/token"
	"os"
	"path/filepath"
	"sort"
	"strconv"
	"strings"

	"gosym/interp"
)

const sep = "\x1f"

// skelF is the skeleton of F(N): one hole of n bytes.
func skelF(n int) string { return sep + strconv.Itoa(n) + sep }

// base programs for the neighbourhood skeletons (DESIGN.md 3.1)
var basePrograms = []string{
	"A := \"x\"\n# c\ntask t(\"f\", d) -> \"o\" {\n\tgo b {{.A}}\n}\n",
	"# doc\ntask a() {\n\tls\n}\n",
	"X := join(\"a\", \"b\")\ntask b(a, \"*.go\") -> (\"x\", Y) { go build }\n",
	"task t() -> X {\n\tone\n\ttwo\n}\n",
	"# c1\n# c2\nV := exec(\"git x\")\n\ntask z(\"a\", \"b\",) {}\n",
	"A := \"1\"\r\ntask w() {\r\n\tcmd\r\n}\r\n",
	"Ünï := \"é\"\ntask ü() { echo }\n",
	"task t(\"in\") -> (\"o1\", \"o2\") {\n    c1\n    c2 {{.V}} x\n}\n\n# tail\n",
}

func nbSkeletons(bases []string, k int, kinds string) []string {
	seen := map[string]bool{}
	var out []string
	for _, b := range bases {
		for p := 0; p <= len(b); p++ {
			for kk := 1; kk <= k; kk++ {
				if strings.Contains(kinds, "i") {
					s := b[:p] + sep + strconv.Itoa(kk) + sep + b[p:]
					if !seen[s] {
						seen[s] = true
						out = append(out, s)
					}
				}
				if strings.Contains(kinds, "o") && p+kk <= len(b) {
					s := b[:p] + sep + strconv.Itoa(kk) + sep + b[p+kk:]
					if !seen[s] {
						seen[s] = true
						out = append(out, s)
					}
				}
			}
		}
	}
	return out
}

// testCorpus collects string literals of the repository's lexer/parser/ast tests plus its spokfiles.
func testCorpus() []string {
	seen := map[string]bool{}
	var out []string
	add := func(s string) {
		if len(s) > 600 || seen[s] || strings.Contains(s, sep) {
			return
		}
		seen[s] = true
		out = append(out, s)
	}
	for _, f := range []string{"lexer/lexer_test.go", "parser/parser_test.go", "ast/ast_test.go"} {
		fset := token.NewFileSet()
		file, err := parser.ParseFile(fset, filepath.Join(repoDir, f), nil, 0)
		if err != nil {
			continue
		}
		ast.Inspect(file, func(n ast.Node) bool {
			if bl, ok := n.(*ast.BasicLit); ok && bl.Kind == token.STRING {
				if s, err := strconv.Unquote(bl.Value); err == nil {
					add(s)
				}
			}
			return true
		})
	}
	for _, f := range []string{"spokfile", "docs/spokfile"} {
		if data, err := os.ReadFile(filepath.Join(repoDir, f)); err == nil {
			add(string(data))
		}
	}
	for _, b := range basePrograms {
		add(b)
	}
	sort.Strings(out)
	return out
}

func corpusJobs(fn string) func() []jobSpec {
	return func() []jobSpec {
		var out []jobSpec
		for k, s := range testCorpus() {
			out = append(out, jobSpec{Name: fmt.Sprintf("corpus%d", k), Func: fn, Params: map[string]string{"skel": s}, Opts: interp.Options{Budget: 20_000_000}})
		}
		return out
	}
}

func skelJobs(fn string, skels []string, opts interp.Options) []jobSpec {
	var out []jobSpec
	for k, s := range skels {
		out = append(out, jobSpec{Name: fmt.Sprintf("%s#%d", fn, k), Func: fn, Params: map[string]string{"skel": s}, Opts: opts})
	}
	return out
}

func init() {
	register(&checkDef{
		ID: "C16", Pkg: "lexh", Level: "other", NativeCheck: true,
		Explanation: "Bounded symbolic execution of the real lexer (go/ssa of /repo's working tree, interpreted with SMT bit-vector terms for the input bytes). " +
			"Every explored path stands for all byte strings that drive the lexer the same way; on each path every assertion instance of the harness (token text is the input slice at its offset, offsets increasing and inside the input, only whitespace between tokens, line = 1 + newlines before the offset, EOF token at len(input)) is a solver query 'is there a filling of the symbolic bytes consistent with this path that violates it', discharged unsat. " +
			"Violating models are replayed natively with the identical harness before being reported.",
		Bounds: func(tier string) string {
			if tier == "thorough" {
				return "F(N<=6): every byte string of length <= 6 (all 256 byte values); NB(3): every 1..3-byte insertion and overwrite at every offset of 8 base programs"
			}
			return "F(N<=4): every byte string of length <= 4 (all 256 byte values); NB(1): every 1-byte insertion and overwrite at every offset of 4 base programs"
		},
		Outside: []string{
			"inputs longer than the bound or not a neighbourhood filling of a base program",
			"decoded runes above U+00FF other than the witnesses {U+0100,U+2003,U+2014,U+20AC,U+4E16,U+FFFD,U+10400,U+1F600} (rune-domain assumption where a unicode predicate is applied)",
			"error paths end when the lexer enters getLine to build the error token (all tokens before the error have been checked; construction of error tokens is C08's subject)",
		},
		Assumptions: []string{
			"unicode.IsSpace/IsLetter/IsPunct are summarised by evaluating the host Go standard library function on the finite rune domain (Latin-1 + 8 witnesses)",
			"scheduler: the lexer goroutine and the harness rendezvous over the unbuffered token channel; run-until-block schedule with the harness first (deterministic rendezvous)",
			"engine trusted base: go/ssa construction, the forked x/tools interpreter, the SMT encoding of Go integer/string operations, z3 5.1.0",
		},
		StopAt:       []string{"(*" + modulePath + "/lexer.Lexer).getLine"},
		EndSignature: map[string]string{"crash": "C16/panic", "budget": "C16/stream-not-finite", "deadlock": "C16/deadlock"},
		Corpus:       corpusJobs("C16"),
		Jobs: func(tier string, seed int64) []jobSpec {
			opts := interp.Options{Budget: 400_000}
			var skels []string
			if tier == "thorough" {
				for n := 0; n <= 6; n++ {
					skels = append(skels, skelF(n))
				}
				skels = append(skels, nbSkeletons(basePrograms, 3, "io")...)
			} else {
				for n := 0; n <= 4; n++ {
					skels = append(skels, skelF(n))
				}
				skels = append(skels, nbSkeletons(basePrograms[:4], 1, "io")...)
			}
			return skelJobs("C16", skels, opts)
		},
	})
}

// truncations returns, for every base, every proper prefix followed by a hole of k bytes.
func truncations(bases []string, k int) []string {
	seen := map[string]bool{}
	var out []string
	for _, b := range bases {
		for p := 0; p <= len(b); p++ {
			s := b[:p] + sep + strconv.Itoa(k) + sep
			if !seen[s] {
				seen[s] = true
				out = append(out, s)
			}
		}
	}
	return out
}

func h(n int) string { return sep + strconv.Itoa(n) + sep }

// identSkeletons put a hole of n bytes at every identifier position of small programs.
func identSkeletons(n int) []string {
	return []string{
		"A := \"x\" " + h(n) + " := \"y\"\n",
		h(n) + " := \"y\"\n",
		"task " + h(n) + "() {}\n",
		"X := " + h(n) + "(\"a\")\n",
		"task t(" + h(n) + ") {}\n",
		"task t() -> " + h(n) + " {}\n",
		"A := \"x\"\n" + h(n) + " t() {}\n",
	}
}

// commentSkeletons: two-hole skeletons around comments and docstrings (C15).
func commentSkeletons(a, b int) []string {
	return []string{
		"# " + h(a) + "\n#" + h(b) + "\ntask t() {}\n",
		"#" + h(a) + "\n#" + h(b) + "\nA := \"x\"\n",
		"#" + h(a) + "\n\n#" + h(b) + "\ntask t() {}\n",
		"A := \"x\"\n#" + h(a) + "\n" + h(b) + "task t() {}\n",
		"#" + h(a) + "\ntask t() {\n\tls\n}\n#" + h(b) + "\n",
		"task t() {}\n#" + h(a) + "\n#" + h(b),
	}
}

// wideSkeletons: programs whose lists, strings, commands and comments are far wider than any line
// width a formatter might wrap at (about 130 columns), one free byte each. Everything else in the
// formatter family is short text; a seeded change that wrapped lists wider than 80 columns (and
// broke them) lived entirely outside those bounds (DESIGN.md 9.5).
func wideSkeletons() []string {
	w := func(c string) string { return strings.Repeat(c, 24) }
	list := "\"" + w("a") + "\", \"" + w("b") + "\", " + "dep" + ", \"" + w("c") + "\", \"" + w("d") + "\""
	return []string{
		"task t(" + list + ", \"e" + h(1) + "\") {\n\tls\n}\n",
		"task t(" + list + ", f" + h(1) + ") {\n\tls\n}\n",
		"task t() -> (" + list + ", \"e" + h(1) + "\") {\n\tls\n}\n",
		"task t(\"x\") -> (" + list + ", OUT" + h(1) + ") {}\n",
		"A := \"" + w("a") + w("b") + w("c") + w("d") + w("e") + h(1) + "\"\n",
		"A := join(" + "\"" + w("a") + "\", \"" + w("b") + "\", \"" + w("c") + "\", \"" + w("d") + "\", \"e" + h(1) + "\")\n",
		"task t() {\n\tgo build " + w("a") + " " + w("b") + " " + w("c") + " " + w("d") + " " + w("e") + h(1) + "\n}\n",
		"# " + w("a") + " " + w("b") + " " + w("c") + " " + w("d") + " " + w("e") + h(1) + "\ntask t() {}\n",
	}
}

var lexerGetLine = "(*" + modulePath + "/lexer.Lexer).getLine"
var parserGetLine = "(*" + modulePath + "/parser.Parser).getLine"

var lexAssumptions = []string{
	"unicode.IsSpace/IsLetter/IsPunct are summarised by evaluating the host Go standard library function on the finite rune domain (Latin-1 + 8 witnesses)",
	"scheduler: the lexer goroutine and the parser rendezvous over the unbuffered token channel; run-until-block schedule (deterministic rendezvous)",
	"fmt.Sprintf/Errorf with symbolic operands return an identity-comparable placeholder; the text is never inspected by the code under test",
	"engine trusted base: go/ssa construction, the forked x/tools interpreter, the SMT encoding of Go integer/string operations, z3 5.1.0",
}

var lexOutside = []string{
	"inputs longer than the bound or not a filling of a listed skeleton",
	"decoded runes above U+00FF other than the witnesses {U+0100,U+2003,U+2014,U+20AC,U+4E16,U+FFFD,U+10400,U+1F600}",
}

func fmtFamily(id, fn, explanation string, extraQuick, extraThorough func() []string) *checkDef {
	return &checkDef{
		ID: id, Pkg: "lexh", Level: "other", NativeCheck: true,
		Explanation: explanation,
		Bounds: func(tier string) string {
			if tier == "thorough" {
				return "F(N<=6) + NB(3) over 8 base programs + identifier holes of 5 bytes + two-hole comment skeletons (3,3) + 8 wide programs (lists, strings, commands, comments of about 130 columns) with one free byte"
			}
			return "F(N<=4) + NB(1) over 4 base programs + identifier holes of 5 bytes (2 skeletons) + two-hole comment skeletons (1,1) + 8 wide programs (lists, strings, commands, comments of about 130 columns) with one free byte"
		},
		Outside:      append(append([]string{}, lexOutside...), "inputs that do not parse end when the lexer/parser starts building its error (they are outside the property's quantifier)"),
		Assumptions:  lexAssumptions,
		StopAt:       []string{lexerGetLine, parserGetLine},
		EndSignature: map[string]string{"crash": id + "/panic", "budget": id + "/non-termination", "deadlock": id + "/deadlock"},
		Corpus:       corpusJobs(fn),
		Jobs: func(tier string, seed int64) []jobSpec {
			opts := interp.Options{Budget: 1_000_000}
			var skels []string
			if tier == "thorough" {
				for n := 0; n <= 6; n++ {
					skels = append(skels, skelF(n))
				}
				skels = append(skels, nbSkeletons(basePrograms, 3, "io")...)
				skels = append(skels, identSkeletons(5)...)
				skels = append(skels, commentSkeletons(3, 3)...)
				skels = append(skels, wideSkeletons()...)
				if extraThorough != nil {
					skels = append(skels, extraThorough()...)
				}
			} else {
				for n := 0; n <= 4; n++ {
					skels = append(skels, skelF(n))
				}
				skels = append(skels, nbSkeletons(basePrograms[:4], 1, "io")...)
				skels = append(skels, identSkeletons(5)[:2]...)
				skels = append(skels, commentSkeletons(1, 1)...)
				skels = append(skels, wideSkeletons()...)
				if extraQuick != nil {
					skels = append(skels, extraQuick()...)
				}
			}
			return skelJobs(fn, skels, opts)
		},
	}
}

func init() {
	register(&checkDef{
		ID: "C08", Pkg: "lexh", Level: "other", NativeCheck: true,
		Explanation: "Bounded symbolic execution of parser.New(x).Parse() including the lexer goroutine and its channel on the engine's cooperative scheduler. " +
			"For every path: no runtime panic in either goroutine (crash verdict), termination inside an instruction budget (unwinding check, reported as a violation only if the native replay hangs too), no deadlock, " +
			"the same outcome on a second parse, and every returned error is the text of a located error object whose line is in 1..#lines and whose context equals the trimmed text of that line (solver-decided on the symbolic bytes).",
		Bounds: func(tier string) string {
			if tier == "thorough" {
				return "F(N<=5) + NB(2) over 8 base programs + every truncation of the base programs followed by 0..2 free bytes; both scheduler priorities"
			}
			return "F(N<=3) + NB(1) over 3 base programs + every truncation of 3 base programs followed by 0..1 free bytes; both scheduler priorities for F"
		},
		Outside:      lexOutside,
		Assumptions:  lexAssumptions,
		Observe:      []string{"(" + modulePath + "/lexer.syntaxError).Error", "(" + modulePath + "/parser.illegalToken).Error"},
		EndSignature: map[string]string{"crash": "C08/panic", "budget": "C08/non-termination", "deadlock": "C08/deadlock"},
		Corpus:       corpusJobs("C08"),
		Jobs: func(tier string, seed int64) []jobSpec {
			opts := interp.Options{Budget: 2_000_000}
			hi := opts
			hi.Sched = interp.SchedHigh
			var out []jobSpec
			var skels, fs []string
			if tier == "thorough" {
				for n := 0; n <= 5; n++ {
					fs = append(fs, skelF(n))
				}
				skels = append(skels, nbSkeletons(basePrograms, 2, "io")...)
				skels = append(skels, truncations(basePrograms, 0)...)
				skels = append(skels, truncations(basePrograms, 1)...)
				skels = append(skels, truncations(basePrograms, 2)...)
			} else {
				for n := 0; n <= 3; n++ {
					fs = append(fs, skelF(n))
				}
				skels = append(skels, nbSkeletons(basePrograms[:3], 1, "io")...)
				skels = append(skels, truncations(basePrograms[:3], 0)...)
				skels = append(skels, truncations(basePrograms[:3], 1)...)
			}
			out = append(out, skelJobs("C08", fs, opts)...)
			for _, j := range skelJobs("C08", fs, hi) {
				j.Name += "/sched-high"
				out = append(out, j)
			}
			out = append(out, skelJobs("C08", skels, opts)...)
			if tier == "thorough" {
				for _, j := range skelJobs("C08", skels, hi) {
					j.Name += "/sched-high"
					out = append(out, j)
				}
			}
			return out
		},
	})
	register(fmtFamily("C07", "C07",
		"Bounded symbolic execution of Parse, Tree.String and Parse again on symbolic input bytes: for every path on which the input parses, the formatted text must parse and the sequence of assignments (name, value kind and text/arguments) and tasks (name, dependencies, outputs, commands) must be equal; string equalities over symbolic bytes are solver queries.", nil, nil))
	register(fmtFamily("C11", "C11",
		"Bounded symbolic execution of Parse/String twice: for every path on which the input and its formatted text parse, String(Parse(format(x))) == format(x) byte for byte (a conjunction of byte equalities refuted or satisfied by the solver).", nil, nil))
	register(fmtFamily("C15", "C15",
		"Bounded symbolic execution of Parse/String/Parse: for every path on which the input and its formatted text parse, the sequence of trimmed non-empty comment texts (comments and docstrings in source order) and each task's trimmed docstring are equal before and after formatting.", nil, nil))
}

var c06Shapes = []string{
	"vs", "c", "vf:s", "vf:ss", "t:::0", "t1:::1", "t:::1", "t:::2", "td:::1",
	"t:s::1", "t:i::1", "t:si::1", "t::s:1", "t::i:1", "tp::s:1", "t::ss:1", "t::si:1", "t,:s:ss:1", "t,:is::0",
	"vs;vs", "vs;t:::1", "c;vs", "t:::1;t1:::1", "vs;c;vs", "td:s:s:2;vs",
}

var c06ShapesThorough = []string{
	"vf:sss", "t:sss:sss:3", "t:iii::0", "t1:s:i:1", "t1,:ss:ii:1", "td,:si:is:3",
	"vs;vf:ss;td:s:s:2;c", "c;c;vs", "vs;vs;vs;vs", "t:::3;td:i:s:1", "tdp::i:2;c", "vf:s;t1:::0;vs",
	"td:::0;td:::0", "c;vs;c;td:::1", "t1:i:s:1;t1:s:i:1;vs",
}

func c06Jobs(shapes []string, sizes, gaps, crlfs, nonascii []int) []jobSpec {
	var out []jobSpec
	for _, sh := range shapes {
		for _, sz := range sizes {
			for _, g := range gaps {
				for _, cr := range crlfs {
					for _, na := range nonascii {
						p := map[string]string{"shape": sh, "size": strconv.Itoa(sz), "gap": strconv.Itoa(g), "crlf": strconv.Itoa(cr), "nonascii": strconv.Itoa(na)}
						out = append(out, jobSpec{Name: fmt.Sprintf("C06[%s size=%d gap=%d crlf=%d na=%d]", sh, sz, g, cr, na), Func: "C06", Params: p, Opts: interp.Options{Budget: 3_000_000}})
					}
				}
			}
		}
	}
	return out
}

func init() {
	register(&checkDef{
		ID: "C06", Pkg: "lexh", Level: "other", NativeCheck: true,
		Explanation: "Bounded symbolic execution of the real lexer and parser on text written by the harness's own writer from an abstract structure: the structure's shape is fixed per job, " +
			"identifier, string, comment and command contents are symbolic bytes (assumed only to lie in the admissible class of their position) and every optional gap of the layout is a run of symbolic blank bytes; " +
			"the parsed tree must have exactly the written names, strings, commands in order (byte-string equalities decided by the solver).",
		Bounds: func(tier string) string {
			if tier == "thorough" {
				return fmt.Sprintf("%d shapes (up to 4 statements, 3 dependencies/outputs/arguments, 3 commands) x content holes of 1 byte x gap length 0..2 x LF/CRLF, and x non-ASCII suffix at gap 1; content holes of 2 bytes on the 19 one-statement shapes (all gaps) and 4 two-statement shapes (gap 1); holes of 3 bytes on the 13 one-statement shapes with at most three content holes at gap 1, LF", len(c06Shapes)+len(c06ShapesThorough))
			}
			return fmt.Sprintf("%d shapes (up to 3 statements, 2 dependencies/outputs/arguments, 2 commands) x content holes of 1 byte (2 for a subset) x gap length 0..1 x LF/CRLF", len(c06Shapes))
		},
		Outside: []string{
			"shapes outside the list; longer contents; identifiers are ASCII letters/underscore (plus a fixed non-ASCII suffix in the non-ASCII variant)",
			"layouts: gaps are runs of spaces/tabs of one length per job at every optional position (indentation, around :=, inside parentheses, around ->, before {, inside one-line bodies); blanks between a string value and the end of its line are not generated; blank lines between statements 0..1",
			"command alphabet: first byte an ASCII letter, then printable ASCII without '#', '{', '}', no trailing blank; one fixed {{.A}} unit in the second command",
		},
		Assumptions:  lexAssumptions,
		EndSignature: map[string]string{"crash": "C06/panic", "budget": "C06/non-termination", "deadlock": "C06/deadlock"},
		Jobs: func(tier string, seed int64) []jobSpec {
			if tier == "thorough" {
				// Content holes of 2 and 3 bytes only where the number of holes keeps the job within
				// reach: the first plan (2-byte holes on every shape) did not finish - the six
				// jobs of shape td:s:s:2;vs alone took between 18 and 77 minutes each.
				all := append(append([]string{}, c06Shapes...), c06ShapesThorough...)
				var single, multi []string
				for _, sh := range c06Shapes {
					if strings.Contains(sh, ";") {
						if sh != "td:s:s:2;vs" && sh != "vs;c;vs" {
							multi = append(multi, sh)
						}
					} else {
						single = append(single, sh)
					}
				}
				out := c06Jobs(all, []int{1}, []int{0, 1, 2}, []int{0, 1}, []int{0})
				out = append(out, c06Jobs(single, []int{2}, []int{0, 1, 2}, []int{0, 1}, []int{0})...)
				out = append(out, c06Jobs(multi, []int{2}, []int{1}, []int{0, 1}, []int{0})...)
				// 3-byte holes on the one-statement shapes with at most three content holes
				var small []string
				for _, sh := range single {
					switch sh {
					case "vf:ss", "t:si::1", "t::ss:1", "t::si:1", "t,:s:ss:1", "t,:is::0":
					default:
						small = append(small, sh)
					}
				}
				out = append(out, c06Jobs(small, []int{3}, []int{1}, []int{0}, []int{0, 1})...)
				out = append(out, c06Jobs(all, []int{1}, []int{1}, []int{0, 1}, []int{1})...)
				return out
			}
			out := c06Jobs(c06Shapes, []int{1}, []int{0, 1}, []int{0, 1}, []int{0})
			out = append(out, c06Jobs(c06Shapes[:9], []int{2}, []int{1}, []int{0}, []int{0, 1})...)
			return out
		},
	})
}
