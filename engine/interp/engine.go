package interp

// Engine: owns the SSA program, the dispatch table (intrinsics, redirects, observers), the
// worker pool; runs jobs (one harness function + parameters) to completion.

import (
	"fmt"
	"go/token"
	"go/types"
	"os"
	"runtime"
	"sort"
	"strings"
	"sync"
	"sync/atomic"
	"time"

	"golang.org/x/tools/go/ssa"
	"golang.org/x/tools/go/ssa/ssautil"
)

type dispatchEntry struct {
	name     string
	ext      externalFn
	redirect *ssa.Function
	skip     bool
	observe  bool
	stop     bool
}

// Config describes how the program is to be executed.
type Config struct {
	SymPkg        string            // import path of the harness API package
	ReinitPrefix  []string          // packages whose globals are re-initialised at every path
	InitDeny      []string          // package path prefixes whose init functions are never run
	InitAllow     []string          // exceptions to InitDeny
	Redirects     map[string]string // full function name -> full name of replacement
	Workers       int
	Trace         bool
	Sites         bool
	SolverLogDir  string
}

type Engine struct {
	Prog     *ssa.Program
	cfg      Config
	dispatch map[*ssa.Function]*dispatchEntry
	byName   map[string]*ssa.Function
	order    []*ssa.Package
	sizes    types.Sizes
	pool     []*interpreter
	poolMu   sync.Mutex
	Stubs    []string // redirects and intrinsics in force (for evidence)
	// uninit: globals that a package initialiser would have set but whose package is on the
	// deny list, so they still hold their zero value. Interpreted code touching one is an
	// engine error (the alternative is silently wrong semantics).
	uninit map[*ssa.Global]string
	covMu    sync.Mutex
	tokens   chan struct{} // one per CPU: held while a path executes
	Cov      map[string]int64
}

func NewEngine(prog *ssa.Program, cfg Config) (*Engine, error) {
	e := &Engine{Prog: prog, cfg: cfg, dispatch: map[*ssa.Function]*dispatchEntry{}, byName: map[string]*ssa.Function{}, Cov: map[string]int64{}, tokens: make(chan struct{}, runtime.NumCPU())}
	e.sizes = types.SizesFor("gc", "amd64")
	all := ssautil.AllFunctions(prog)
	for fn := range all {
		if fn.Parent() != nil {
			continue
		}
		e.byName[fn.String()] = fn
	}
	exts := e.intrinsics()
	for fn := range all {
		if fn.Parent() != nil {
			continue
		}
		name := fn.String()
		if fn.Synthetic == "package initializer" && fn.Pkg != nil {
			if !e.initAllowed(fn.Pkg.Pkg.Path()) {
				e.dispatch[fn] = &dispatchEntry{name: name, skip: true}
			}
			continue
		}
		key := name
		// instantiated generics: "pkg.F[int]" -> try the origin name too
		if x, ok := exts[key]; ok {
			e.dispatch[fn] = &dispatchEntry{name: name, ext: x}
			continue
		}
		if fn.Origin() != nil {
			if x, ok := exts[fn.Origin().String()]; ok {
				e.dispatch[fn] = &dispatchEntry{name: name, ext: x}
				continue
			}
		}
	}
	var missing []string
	for from, to := range cfg.Redirects {
		f, ok := e.byName[from]
		if !ok {
			continue // not part of this program
		}
		t, ok := e.byName[to]
		if !ok {
			missing = append(missing, to)
			continue
		}
		e.dispatch[f] = &dispatchEntry{name: from, redirect: t}
		e.Stubs = append(e.Stubs, from+" => "+to)
	}
	if len(missing) > 0 {
		return nil, fmt.Errorf("redirect targets not found: %v", missing)
	}
	sort.Strings(e.Stubs)
	// globals left uninitialised by skipped package initialisers
	e.uninit = map[*ssa.Global]string{}
	for fn := range all {
		if fn.Pkg == nil || e.initAllowed(fn.Pkg.Pkg.Path()) {
			continue
		}
		if fn.Synthetic != "package initializer" && !strings.HasPrefix(fn.Name(), "init#") {
			continue
		}
		for _, b := range fn.Blocks {
			for _, in := range b.Instrs {
				if st, ok := in.(*ssa.Store); ok {
					if g, ok := st.Addr.(*ssa.Global); ok && g.Name() != "init$guard" {
						e.uninit[g] = fn.Pkg.Pkg.Path()
					}
				}
			}
		}
	}
	// package initialisation order (dependencies first)
	seen := map[*types.Package]bool{}
	var visit func(p *types.Package)
	visit = func(p *types.Package) {
		if seen[p] {
			return
		}
		seen[p] = true
		imps := p.Imports()
		for _, q := range imps {
			visit(q)
		}
		if sp := prog.Package(p); sp != nil {
			e.order = append(e.order, sp)
		}
	}
	pkgs := prog.AllPackages()
	sort.Slice(pkgs, func(a, b int) bool { return pkgs[a].Pkg.Path() < pkgs[b].Pkg.Path() })
	for _, p := range pkgs {
		visit(p.Pkg)
	}
	return e, nil
}

func hasPrefixAny(s string, ps []string) bool {
	for _, p := range ps {
		if s == p || strings.HasPrefix(s, p+"/") || (strings.HasSuffix(p, "*") && strings.HasPrefix(s, strings.TrimSuffix(p, "*"))) {
			return true
		}
	}
	return false
}

func (e *Engine) initAllowed(path string) bool {
	if hasPrefixAny(path, e.cfg.InitAllow) {
		return true
	}
	return !hasPrefixAny(path, e.cfg.InitDeny)
}

func (e *Engine) isReinit(path string) bool {
	return hasPrefixAny(path, e.cfg.ReinitPrefix)
}

// Observe registers a function whose calls (arguments) are recorded on the path.
func (e *Engine) Observe(name string) bool {
	f, ok := e.byName[name]
	if !ok {
		return false
	}
	if d, ok := e.dispatch[f]; ok {
		d.observe = true
		return true
	}
	e.dispatch[f] = &dispatchEntry{name: name, observe: true}
	return true
}

// StopAt makes every path end (normally) when the named function is entered.
func (e *Engine) StopAt(name string) bool {
	f, ok := e.byName[name]
	if !ok {
		return false
	}
	if d, ok := e.dispatch[f]; ok {
		d.stop = true
		return true
	}
	e.dispatch[f] = &dispatchEntry{name: name, stop: true}
	return true
}

// HasFunc reports whether the program contains the named function.
func (e *Engine) HasFunc(name string) bool {
	_, ok := e.byName[name]
	return ok
}

// newWorker builds an interpreter with initialised globals.
func (e *Engine) newWorker(id int) (*interpreter, error) {
	i := &interpreter{prog: e.Prog, globals: map[*ssa.Global]*value{}, sizes: e.sizes, eng: e, cov: map[*ssa.Function]int64{}, id: id}
	if e.cfg.Sites {
		i.sites = map[string]int{}
	}
	if e.cfg.Trace {
		i.mode |= EnableTracing
	}
	runtimePkg := e.Prog.ImportedPackage("runtime")
	if runtimePkg == nil {
		return nil, fmt.Errorf("ssa.Program doesn't include runtime package")
	}
	i.runtimeErrorString = runtimePkg.Type("errorString").Object().Type()
	for _, pkg := range e.Prog.AllPackages() {
		for _, m := range pkg.Members {
			if v, ok := m.(*ssa.Global); ok {
				cell := zero(mustDeref(v.Type()))
				i.globals[v] = &cell
			}
		}
	}
	// run the allowed package initialisers once (no solver: decisions are engine errors)
	rec := i.runPath(nil, workItem{nil, map[string]uint64{}}, Options{Budget: 200_000_000, MaxConc: 1}, nil, func() {
		for _, p := range e.order {
			if !e.initAllowed(p.Pkg.Path()) || e.isReinit(p.Pkg.Path()) {
				continue
			}
			if f := p.Func("init"); f != nil {
				call(i, nil, token.NoPos, f, nil)
			}
		}
	})
	if rec.End != "ok" {
		return nil, fmt.Errorf("package initialisation failed: %s: %s", rec.End, rec.Detail)
	}
	i.initDone = true
	return i, nil
}

// reinit zeroes and re-initialises the globals of the packages under test and of the harness.
func (i *interpreter) reinit() {
	e := i.eng
	i.setByHarness = nil
	for _, p := range e.order {
		if !e.isReinit(p.Pkg.Path()) {
			continue
		}
		for _, m := range p.Members {
			if v, ok := m.(*ssa.Global); ok {
				*i.globals[v] = zero(mustDeref(v.Type()))
			}
		}
	}
	for _, p := range e.order {
		if !e.isReinit(p.Pkg.Path()) || !e.initAllowed(p.Pkg.Path()) {
			continue
		}
		if f := p.Func("init"); f != nil {
			call(i, nil, token.NoPos, f, nil)
		}
	}
}

// runPath executes body as goroutine 0 of a fresh path and returns its record.
func (i *interpreter) runPath(sol *solver, item workItem, opts Options, params map[string]string, body func()) (rec *PathRecord) {
	p := &pathCtx{i: i, ts: newTermStore(), sol: sol, prefix: item.prefix, model: item.model, budget: opts.Budget, reach: map[string]bool{}, phs: map[string]*placeholder{}, params: params, maxConc: opts.MaxConc, calls: map[string][][]value{}}
	if p.model == nil {
		p.model = map[string]uint64{}
	}
	p.rec.Observed = map[string]string{}
	if sol == nil {
		p.sol = nil
	}
	i.path = p
	i.opts = opts
	i.sch = newSched(i, opts.Sched)
	if sol != nil {
		sol.beginPath()
	}
	g0 := i.sch.spawn("main", body)
	i.sch.handTo(g0)
	<-i.sch.done
	i.sch.teardown()
	if sol != nil {
		func() {
			defer func() {
				if r := recover(); r != nil {
					p.rec.End = "engine-error"
					p.rec.Detail = fmt.Sprint(r)
				}
			}()
			sol.endPath()
		}()
	}
	p.rec.Steps = p.steps
	p.rec.Decisions = len(p.trace)
	p.rec.Model = p.fullModel(p.model)
	p.rec.Trace = p.trace
	p.rec.Observed = p.renderObs(p.model)
	for l := range p.reach {
		p.rec.Reach = append(p.rec.Reach, l)
	}
	sort.Strings(p.rec.Reach)
	if len(p.trace) < len(p.prefix) && p.rec.End != "engine-error" && p.rec.End != "infeasible" {
		// the path ended before its prefix was consumed: re-execution diverged
		if !(p.rec.End == "ok" && p.rec.Detail == "after-violation") {
			p.rec.Detail = fmt.Sprintf("path ended (%s: %s) after %d of %d prefix decisions", p.rec.End, p.rec.Detail, len(p.trace), len(p.prefix))
			p.rec.End = "engine-error"
		}
	}
	return &p.rec
}

// Job is one harness invocation to be explored exhaustively.
type Job struct {
	Name     string // label
	Func     string // full name of the harness function, e.g. "pkg/path.HarnessC16"
	Params   map[string]string
	Opts     Options
	MaxPaths int
}

func (e *Engine) getWorker() (*interpreter, error) {
	e.poolMu.Lock()
	if n := len(e.pool); n > 0 {
		w := e.pool[n-1]
		e.pool = e.pool[:n-1]
		e.poolMu.Unlock()
		return w, nil
	}
	id := len(e.pool)
	e.poolMu.Unlock()
	return e.newWorker(id)
}

func (e *Engine) putWorker(w *interpreter) {
	e.poolMu.Lock()
	e.pool = append(e.pool, w)
	e.poolMu.Unlock()
}

// RunJob explores all paths of the job with the configured number of workers.
func (e *Engine) RunJob(job Job, workers int) (*JobResult, error) {
	fn, ok := e.byName[job.Func]
	if !ok {
		return nil, fmt.Errorf("harness function %s not found", job.Func)
	}
	if job.Opts.Budget == 0 {
		job.Opts.Budget = 2_000_000
	}
	if job.Opts.MaxConc == 0 {
		job.Opts.MaxConc = 300
	}
	x := newExplorer(job.Name, job.Params)
	x.maxPaths = job.MaxPaths
	x.sampleEvery = 997
	start := time.Now()
	var wg sync.WaitGroup
	errs := make(chan error, 2*workers)
	var statMu sync.Mutex
	var logTaken int32
	for w := 0; w < workers; w++ {
		wg.Add(1)
		go func(w int) {
			defer wg.Done()
			// The interpreter and the solver process are acquired when this worker gets its first
			// item (small jobs do not pay for sixteen of each), and a path runs only while holding
			// one of the engine's CPU tokens, so that several jobs can be explored at once without
			// oversubscribing the machine.
			var i *interpreter
			var sol *solver
			fail := func(err error) {
				errs <- err
				x.mu.Lock()
				x.stop = true
				x.cond.Broadcast()
				x.mu.Unlock()
			}
			defer func() {
				if i != nil {
					e.putWorker(i)
				}
				if sol != nil {
					sol.close()
					statMu.Lock()
					s := &x.res.Solver
					s.Queries += sol.stats.Queries
					s.Sat += sol.stats.Sat
					s.Unsat += sol.stats.Unsat
					s.Unknown += sol.stats.Unknown
					s.Time += sol.stats.Time
					s.Asserted += sol.stats.Asserted
					statMu.Unlock()
				}
			}()
			for {
				item, ok := x.get()
				if !ok {
					return
				}
				e.tokens <- struct{}{}
				if i == nil {
					var err error
					if i, err = e.getWorker(); err != nil {
						<-e.tokens
						i = nil
						fail(err)
						return
					}
					if sol, err = newSolver(); err != nil {
						<-e.tokens
						sol = nil
						fail(err)
						return
					}
					if e.cfg.SolverLogDir != "" && atomic.CompareAndSwapInt32(&logTaken, 0, 1) {
						// one worker's session is kept (capped) for the second-solver cross-check
						f, _ := os.Create(fmt.Sprintf("%s/solver-%s-%d.smt2", e.cfg.SolverLogDir, sanitize(job.Name), 0))
						if f != nil {
							sol.log = &cappedWriter{w: f, max: 4 << 20}
							defer f.Close()
						}
					}
				}
				rec := i.runPath(sol, item, job.Opts, job.Params, func() {
					i.reinit()
					call(i, nil, token.NoPos, fn, nil)
				})
				alts := i.path.alts
				if rec.End == "engine-error" && strings.Contains(rec.Detail, "solver") {
					// solver process unusable: restart it
					sol.close()
					ns, err := newSolver()
					if err != nil {
						<-e.tokens
						errs <- err
						x.put(rec, nil)
						return
					}
					ns.stats = sol.stats
					ns.log = sol.log
					sol = ns
				}
				<-e.tokens
				for k := range rec.Violations {
					rec.Violations[k].Job = job.Name
					rec.Violations[k].Params = job.Params
				}
				x.put(rec, alts)
			}
		}(w)
	}
	wg.Wait()
	select {
	case err := <-errs:
		return nil, err
	default:
	}
	x.res.Wall = time.Since(start).Seconds()
	// merge coverage
	e.covMu.Lock()
	e.poolMu.Lock()
	for _, w := range e.pool {
		if w.sites != nil {
			if x.res.Sites == nil {
				x.res.Sites = map[string]int{}
			}
			for k, n := range w.sites {
				x.res.Sites[k] += n
			}
			w.sites = map[string]int{}
		}
		for f, n := range w.cov {
			e.Cov[f.String()] += n
		}
		w.cov = map[*ssa.Function]int64{}
	}
	e.poolMu.Unlock()
	e.covMu.Unlock()
	return x.res, nil
}

func sanitize(s string) string {
	return strings.Map(func(r rune) rune {
		if r >= 'a' && r <= 'z' || r >= 'A' && r <= 'Z' || r >= '0' && r <= '9' || r == '-' || r == '_' {
			return r
		}
		return '_'
	}, s)
}

// callNamed calls a package-level function of the program by name.
func (i *interpreter) callNamed(fr *frame, pkg, name string, args []value) value {
	f, ok := i.eng.byName[pkg+"."+name]
	if !ok {
		panic(engineError{"callNamed: no function " + pkg + "." + name})
	}
	return call(i, fr, token.NoPos, f, args)
}

// cappedWriter stops writing after max bytes (the reader cuts at the last complete path).
type cappedWriter struct {
	w   *os.File
	n   int
	max int
}

func (c *cappedWriter) Write(p []byte) (int, error) {
	if c.n < c.max {
		c.n += len(p)
		return c.w.Write(p)
	}
	return len(p), nil
}
