package interp

// Intrinsics: functions that cannot be interpreted from SSA (assembly, unsafe, runtime hooks,
// reflection) or that are part of the harness API. Keys are ssa.Function.String().

import (
	"fmt"
	"go/token"
	"go/types"
	"sort"
	"strconv"
	"strings"
	"unicode"
	"unicode/utf8"

	"golang.org/x/tools/go/ssa"
)

type externalFn func(fr *frame, args []value) value

// If the target program panics, the interpreter panics with this type.
// (declared in ops.go: targetPanic, exitPanic)

// Witness runes above Latin-1 admitted by the rune domain (DESIGN.md 3.1).
var runeWitnesses = []rune{0x0100, 0x2003, 0x2014, 0x20AC, 0x4E16, 0xFFFD, 0x10400, 0x1F600}

func (e *Engine) intrinsics() map[string]externalFn {
	sym := e.cfg.SymPkg
	m := map[string]externalFn{
		// ---- harness API
		sym + ".Byte":      extSymByte,
		sym + ".Bytes":     extSymBytes,
		sym + ".String":    extSymString,
		sym + ".Int":       extSymInt,
		sym + ".Bool":      extSymBool,
		sym + ".Choice":    extSymChoice,
		sym + ".Assume":    extSymAssume,
		sym + ".Assert":    extSymAssert,
		sym + ".Violation": extSymViolation,
		sym + ".Reach":     extSymReach,
		sym + ".Observe":   extSymObserve,
		sym + ".ParamInt":  extSymParamInt,
		sym + ".ParamStr":  extSymParamStr,
		sym + ".Symbolic":  func(fr *frame, args []value) value { return true },
		sym + ".Calls":     extSymCalls,
		sym + ".CallArg":   extSymCallArg,
		sym + ".Leaked":    func(fr *frame, args []value) value { return fr.i.sch.countLive() },
		sym + ".Concrete":  extSymConcrete,
		sym + ".Baseline":  extNop,
		sym + ".ExploreSchedules": func(fr *frame, args []value) value {
			if fr.i.opts.Sched == SchedExplore {
				if args[0].(bool) {
					fr.i.sch.mode = SchedExplore
				} else {
					fr.i.sch.mode = SchedLow
				}
			}
			return nil
		},
		sym + ".Stdout":  func(fr *frame, args []value) value { return strings.Join(fr.i.path.stdout, "") },
		sym + ".Quiesce": func(fr *frame, args []value) value { fr.i.sch.quiesce(); return nil },
		sym + ".Opaque": func(fr *frame, args []value) value {
			s, ok := args[0].(string)
			return ok && strings.Contains(s, phOpen)
		},
		sym + ".Prune": func(fr *frame, args []value) value { fr.i.path.prune = args[0].(bool); return nil },
		sym + ".And":   func(fr *frame, args []value) value { return fr.i.andV(args[0], args[1]) },
		sym + ".Or": func(fr *frame, args []value) value {
			return fr.i.notV(fr.i.andV(fr.i.notV(args[0]), fr.i.notV(args[1])))
		},
		sym + ".Cut": func(fr *frame, args []value) value {
			fr.i.path.rec.Cuts = append(fr.i.path.rec.Cuts, fr.i.hostString(args[0]))
			fr.i.path.end("cut", fr.i.hostString(args[0]))
			return nil
		},

		// ---- internal/bytealg
		"internal/bytealg.IndexByteString":     extIndexByteString,
		"internal/bytealg.IndexByte":           extIndexByte,
		"internal/bytealg.CountString":         extCountString,
		"internal/bytealg.Count":               extCount,
		"internal/bytealg.IndexString":         extIndexString,
		"internal/bytealg.Index":               extIndexBytes,
		"internal/bytealg.Compare":             extCompare,
		"internal/bytealg.CompareString":       extCompareString,
		"strings.Compare":                      extCompareString,
		"internal/bytealg.Equal":               extBytesEqual,
		"internal/bytealg.MakeNoZero":          extMakeNoZero,
		"internal/stringslite.Index":           nil, // interpreted
		"bytes.Equal":                          extBytesEqual,
		"bytes.Compare":                        extCompare,
		"internal/bytealg.LastIndexByteString": extLastIndexByteString,
		"internal/bytealg.LastIndexByte":       extLastIndexByte,

		// ---- strings / bytes internals that use unsafe
		"(*strings.Builder).String":    extBuilderString,
		"(*strings.Builder).copyCheck": extNop,
		"strings.Clone":                func(fr *frame, args []value) value { return args[0] },
		"internal/stringslite.Clone":   func(fr *frame, args []value) value { return args[0] },
		"internal/abi.NoEscape":        func(fr *frame, args []value) value { return args[0] },
		"internal/abi.Escape":          func(fr *frame, args []value) value { return args[0] },

		// ---- unicode predicates (summaries over the rune domain)
		"unicode.IsSpace":   uniPred("IsSpace", unicode.IsSpace),
		"unicode.IsLetter":  uniPred("IsLetter", unicode.IsLetter),
		"unicode.IsPunct":   uniPred("IsPunct", unicode.IsPunct),
		"unicode.IsUpper":   uniPred("IsUpper", unicode.IsUpper),
		"unicode.IsLower":   uniPred("IsLower", unicode.IsLower),
		"unicode.IsDigit":   uniPred("IsDigit", unicode.IsDigit),
		"unicode.IsNumber":  uniPred("IsNumber", unicode.IsNumber),
		"unicode.IsControl": uniPred("IsControl", unicode.IsControl),
		"unicode.IsPrint":   uniPred("IsPrint", unicode.IsPrint),
		"unicode.IsGraphic": uniPred("IsGraphic", unicode.IsGraphic),
		"unicode.IsSymbol":  uniPred("IsSymbol", unicode.IsSymbol),
		"unicode.IsMark":    uniPred("IsMark", unicode.IsMark),

		// ---- fmt
		"fmt.Sprintf":  extSprintf,
		"fmt.Errorf":   extErrorf,
		"fmt.Sprint":   extSprint,
		"fmt.Sprintln": extSprintln,
		"fmt.Fprintf":  extFprintf,
		"fmt.Fprint":   extFprint,
		"fmt.Fprintln": extFprintln,
		"fmt.Printf":   extPrintf,
		"fmt.Print":    extPrint,
		"fmt.Println":  extPrintln,

		// ---- errors
		"errors.Is": extErrorsIs,
		"errors.As": extErrorsAs,

		// ---- sync
		"(*sync.WaitGroup).Add": func(fr *frame, args []value) value {
			fr.i.sch.wgAdd(args[0].(*value), int(fr.i.concInt(args[1])))
			return nil
		},
		"(*sync.WaitGroup).Done":           func(fr *frame, args []value) value { fr.i.sch.wgAdd(args[0].(*value), -1); return nil },
		"(*sync.WaitGroup).Wait":           func(fr *frame, args []value) value { fr.i.sch.wgWait(args[0].(*value)); return nil },
		"(*sync.Mutex).Lock":               func(fr *frame, args []value) value { fr.i.sch.muLock(args[0].(*value), false); return nil },
		"(*sync.Mutex).Unlock":             func(fr *frame, args []value) value { fr.i.sch.muUnlock(args[0].(*value), false); return nil },
		"(*sync.Mutex).TryLock":            func(fr *frame, args []value) value { return fr.i.sch.muTryLock(args[0].(*value)) },
		"(*sync.RWMutex).Lock":             func(fr *frame, args []value) value { fr.i.sch.muLock(args[0].(*value), false); return nil },
		"(*sync.RWMutex).Unlock":           func(fr *frame, args []value) value { fr.i.sch.muUnlock(args[0].(*value), false); return nil },
		"(*sync.RWMutex).RLock":            func(fr *frame, args []value) value { fr.i.sch.muLock(args[0].(*value), true); return nil },
		"(*sync.RWMutex).RUnlock":          func(fr *frame, args []value) value { fr.i.sch.muUnlock(args[0].(*value), true); return nil },
		"(*sync.Once).Do":                  extOnceDo,
		"(*sync.Pool).Get":                 extPoolGet,
		"(*sync.Pool).Put":                 extNop,
		"sync.runtime_registerPoolCleanup": extNop,
		"sync.runtime_notifyListCheck":     extNop,

		// ---- sync/atomic
		"sync/atomic.LoadInt32":             extAtomicLoad,
		"sync/atomic.LoadInt64":             extAtomicLoad,
		"sync/atomic.LoadUint32":            extAtomicLoad,
		"sync/atomic.LoadUint64":            extAtomicLoad,
		"sync/atomic.LoadUintptr":           extAtomicLoad,
		"sync/atomic.LoadPointer":           extAtomicLoad,
		"sync/atomic.StoreInt32":            extAtomicStore,
		"sync/atomic.StoreInt64":            extAtomicStore,
		"sync/atomic.StoreUint32":           extAtomicStore,
		"sync/atomic.StoreUint64":           extAtomicStore,
		"sync/atomic.StoreUintptr":          extAtomicStore,
		"sync/atomic.StorePointer":          extAtomicStore,
		"sync/atomic.AddInt32":              extAtomicAdd,
		"sync/atomic.AddInt64":              extAtomicAdd,
		"sync/atomic.AddUint32":             extAtomicAdd,
		"sync/atomic.AddUint64":             extAtomicAdd,
		"sync/atomic.CompareAndSwapInt32":   extAtomicCAS,
		"sync/atomic.CompareAndSwapInt64":   extAtomicCAS,
		"sync/atomic.CompareAndSwapUint32":  extAtomicCAS,
		"sync/atomic.CompareAndSwapUint64":  extAtomicCAS,
		"sync/atomic.CompareAndSwapPointer": extAtomicCAS,
		"sync/atomic.CompareAndSwapUintptr": extAtomicCAS,
		"sync/atomic.SwapInt32":             extAtomicSwap,
		"sync/atomic.SwapInt64":             extAtomicSwap,
		"sync/atomic.SwapUint32":            extAtomicSwap,
		"sync/atomic.SwapUint64":            extAtomicSwap,
		"sync/atomic.SwapUintptr":           extAtomicSwap,
		"sync/atomic.SwapPointer":           extAtomicSwap,

		// ---- runtime / os / time
		"runtime.NumCPU":         func(fr *frame, args []value) value { return 4 },
		"runtime.GOMAXPROCS":     func(fr *frame, args []value) value { return 4 },
		"runtime.Gosched":        func(fr *frame, args []value) value { fr.i.sch.yield(); return nil },
		"runtime.GC":             extNop,
		"runtime.KeepAlive":      extNop,
		"runtime.SetFinalizer":   extNop,
		"os.Exit":                func(fr *frame, args []value) value { panic(exitPanic(int(fr.i.concInt(args[0])))) },
		"time.Now":               extZeroResult,
		"time.Since":             extZeroResult,
		"time.Sleep":             extNop,
		"(time.Time).Sub":        extZeroResult,
		"(time.Duration).String": func(fr *frame, args []value) value { return "0s" },

		// ---- sort.Slice family (the real ones go through reflectlite)
		"sort.Slice":         extSortSlice,
		"sort.SliceStable":   extSortSlice,
		"sort.SliceIsSorted": extSliceIsSorted,

		// ---- strconv fast paths on concrete data
		"strconv.Itoa": func(fr *frame, args []value) value { return strconv.Itoa(int(fr.i.concInt(args[0]))) },
		"strconv.Quote": func(fr *frame, args []value) value {
			if s, ok := args[0].(string); ok {
				return strconv.Quote(s)
			}
			// symbolic text: the real strconv.Quote is interpreted (a placeholder, as for the
			// arguments of error messages, is wrong as soon as the result is program output:
			// a seeded change made the formatter print strings with Quote, DESIGN.md 9.5)
			return interpretBody{}
		},
	}
	for k, v := range m {
		if v == nil {
			delete(m, k)
		}
	}
	for k := range m {
		if !strings.HasPrefix(k, sym+".") {
			e.Stubs = append(e.Stubs, "intrinsic "+k)
		}
	}
	return m
}

func extNop(fr *frame, args []value) value { return nil }

// sliceOfAny extracts the []value behind an interface-typed slice argument.
func sliceOfAny(v value) []value {
	it, ok := v.(iface)
	if !ok || it.t == nil {
		panic(engineError{"sort.Slice: argument is not a slice in an interface"})
	}
	s, ok := it.v.([]value)
	if !ok {
		panic(engineError{fmt.Sprintf("sort.Slice: unsupported operand %T", it.v)})
	}
	return s
}

// extSortSlice implements sort.Slice and sort.SliceStable as a stable insertion sort that calls
// the interpreted less function (a symbolic result forks the path).
func extSortSlice(fr *frame, args []value) value {
	i := fr.i
	s := sliceOfAny(args[0])
	less := args[1]
	for a := 1; a < len(s); a++ {
		for b := a; b > 0; b-- {
			if !i.truth(call(i, fr, token.NoPos, less, []value{b, b - 1})) {
				break
			}
			s[b], s[b-1] = s[b-1], s[b]
		}
	}
	return nil
}

func extSliceIsSorted(fr *frame, args []value) value {
	i := fr.i
	s := sliceOfAny(args[0])
	for a := len(s) - 1; a > 0; a-- {
		if i.truth(call(i, fr, token.NoPos, args[1], []value{a, a - 1})) {
			return false
		}
	}
	return true
}

func extZeroResult(fr *frame, args []value) value {
	res := fr.fn.Signature.Results()
	if res.Len() == 0 {
		return nil
	}
	return zero(res)
}

func (s *sched) countLive() int {
	n := 0
	for _, g := range s.gs {
		if g.id != 0 && g.state != gDone {
			n++
		}
	}
	return n
}

// ---- harness API ------------------------------------------------------------------------------

func (i *interpreter) hostString(v value) string {
	switch v := v.(type) {
	case string:
		return v
	case sstr:
		return i.path.renderStr(v, i.path.model)
	}
	panic(engineError{fmt.Sprintf("hostString: %T", v)})
}

func extSymByte(fr *frame, args []value) value {
	name := fr.i.hostString(args[0])
	return symv{types.Uint8, fr.i.ts().Var(name, 8)}
}

func byteVars(i *interpreter, name string, n int) []value {
	out := make([]value, n)
	for k := 0; k < n; k++ {
		out[k] = symv{types.Uint8, i.ts().Var(fmt.Sprintf("%s[%d]", name, k), 8)}
	}
	return out
}

func extSymBytes(fr *frame, args []value) value {
	return byteVars(fr.i, fr.i.hostString(args[0]), int(fr.i.concInt(args[1])))
}

func extSymString(fr *frame, args []value) value {
	return mkStr(byteVars(fr.i, fr.i.hostString(args[0]), int(fr.i.concInt(args[1]))))
}

func extSymInt(fr *frame, args []value) value {
	i := fr.i
	name := i.hostString(args[0])
	lo, hi := i.concInt(args[1]), i.concInt(args[2])
	ts := i.ts()
	v := ts.Var(name, 64)
	i.path.assume(ts.And(ts.Bin("bvsle", ts.Const(uint64(lo), 64), v), ts.Bin("bvsle", v, ts.Const(uint64(hi), 64))), "range of "+name)
	return symv{types.Int, v}
}

func extSymBool(fr *frame, args []value) value {
	return symb{fr.i.ts().Var(fr.i.hostString(args[0]), 0)}
}

func extSymChoice(fr *frame, args []value) value {
	i := fr.i
	name := i.hostString(args[0])
	n := int(i.concInt(args[1]))
	k := i.path.choose("choice", n)
	if i.path.choices == nil {
		i.path.choices = map[string]uint64{}
	}
	i.path.choices["#"+name] = uint64(k)
	return k
}

func extSymAssume(fr *frame, args []value) value {
	i := fr.i
	lbl := "assume@" + callerPos(fr)
	switch c := args[0].(type) {
	case bool:
		if !c {
			i.path.rec.Cuts = append(i.path.rec.Cuts, lbl)
			i.path.end("cut", lbl)
		}
	case symb:
		i.path.assume(c.t, lbl)
	}
	return nil
}

func callerPos(fr *frame) string {
	if fr.caller == nil {
		return "?"
	}
	return fr.caller.fn.Name()
}

func extSymAssert(fr *frame, args []value) value {
	i := fr.i
	id := i.hostString(args[1])
	i.path.reach["assert:"+id] = true
	i.path.assert(i.termOf(args[0]), id, "")
	return nil
}

func extSymViolation(fr *frame, args []value) value {
	i := fr.i
	id := i.hostString(args[0])
	msg := i.hostString(args[1])
	i.path.rec.Oblig++
	i.path.violation(id, msg, i.path.model)
	return nil
}

func extSymReach(fr *frame, args []value) value {
	fr.i.path.reach[fr.i.hostString(args[0])] = true
	return nil
}

func extSymObserve(fr *frame, args []value) value {
	i := fr.i
	key := i.hostString(args[0])
	var v value = args[1]
	if it, ok := v.(iface); ok {
		v = it.v
		if it.t == nil {
			v = "<nil>"
		}
	}
	i.path.obs = append(i.path.obs, obsEntry{key, v})
	return nil
}

func extSymParamInt(fr *frame, args []value) value {
	i := fr.i
	if s, ok := i.path.params[i.hostString(args[0])]; ok {
		n, err := strconv.Atoi(s)
		if err != nil {
			panic(engineError{"ParamInt: " + err.Error()})
		}
		return n
	}
	return int(i.concInt(args[1]))
}

func extSymParamStr(fr *frame, args []value) value {
	i := fr.i
	if s, ok := i.path.params[i.hostString(args[0])]; ok {
		return s
	}
	return args[1]
}

func extSymConcrete(fr *frame, args []value) value {
	return int(fr.i.concInt(args[0]))
}

// Calls(name) returns how many observed calls of the named function happened on this path.
func extSymCalls(fr *frame, args []value) value {
	return len(fr.i.path.calls[fr.i.hostString(args[0])])
}

// CallArg(name, k, path...) returns a scalar/string component of the k-th observed call's arguments:
// path indexes first the argument, then struct fields.
func extSymCallArg(fr *frame, args []value) value {
	i := fr.i
	calls := i.path.calls[i.hostString(args[0])]
	k := int(i.concInt(args[1]))
	if k < 0 || k >= len(calls) {
		panic(engineError{"CallArg: no such call"})
	}
	var v value = calls[k]
	idxs := args[2].([]value)
	cur := value(nil)
	for n, ix := range idxs {
		p := int(i.concInt(ix))
		if n == 0 {
			cur = v.([]value)[p]
			continue
		}
		switch c := cur.(type) {
		case structure:
			cur = c[p]
		case *value:
			cur = (*c).(structure)[p]
		case iface:
			cur = c.v.(structure)[p]
		default:
			panic(engineError{fmt.Sprintf("CallArg: cannot index %T", cur)})
		}
	}
	// returned as interface{} holding int or string
	switch c := cur.(type) {
	case string, sstr:
		return iface{types.Typ[types.String], c}
	case bool, symb:
		return iface{types.Typ[types.Bool], c}
	}
	if _, ok := kindOfValue(cur); ok {
		return iface{types.Typ[types.Int], conv(i, types.Typ[types.Int], typeOfInt(cur), cur)}
	}
	panic(engineError{fmt.Sprintf("CallArg: unsupported component %T", cur)})
}

func typeOfInt(v value) types.Type {
	k, _ := kindOfValue(v)
	return types.Typ[k]
}

func (p *pathCtx) observeCall(name string, args []value) {
	cp := make([]value, len(args))
	for k, a := range args {
		cp[k] = copyValue(a)
	}
	p.calls[name] = append(p.calls[name], cp)
}

// copyValue makes a shallow structural copy of aggregates (so later mutation is not observed).
func copyValue(v value) value {
	switch v := v.(type) {
	case structure:
		out := make(structure, len(v))
		for k := range v {
			out[k] = copyValue(v[k])
		}
		return out
	case array:
		out := make(array, len(v))
		for k := range v {
			out[k] = copyValue(v[k])
		}
		return out
	}
	return v
}

// ---- bytealg ------------------------------------------------------------------------------------

func (i *interpreter) byteEq(a, b value) value {
	ca, oka := a.(uint8)
	cb, okb := b.(uint8)
	if oka && okb {
		return ca == cb
	}
	return mkBool(i.ts().Eq(i.termOf(a), i.termOf(b)))
}

func extIndexByteString(fr *frame, args []value) value {
	i := fr.i
	if s, ok := args[0].(string); ok {
		if c, ok := args[1].(uint8); ok {
			return strings.IndexByte(s, c)
		}
	}
	for k, e := range toSstr(args[0]) {
		if i.truth(i.byteEq(e, args[1])) {
			return k
		}
	}
	return -1
}

func extLastIndexByteString(fr *frame, args []value) value {
	i := fr.i
	s := toSstr(args[0])
	for k := len(s) - 1; k >= 0; k-- {
		if i.truth(i.byteEq(s[k], args[1])) {
			return k
		}
	}
	return -1
}

func extLastIndexByte(fr *frame, args []value) value {
	i := fr.i
	s := args[0].([]value)
	for k := len(s) - 1; k >= 0; k-- {
		if i.truth(i.byteEq(s[k], args[1])) {
			return k
		}
	}
	return -1
}

func extIndexByte(fr *frame, args []value) value {
	i := fr.i
	for k, e := range args[0].([]value) {
		if i.truth(i.byteEq(e, args[1])) {
			return k
		}
	}
	return -1
}

func extCountString(fr *frame, args []value) value {
	i := fr.i
	if s, ok := args[0].(string); ok {
		if c, ok := args[1].(uint8); ok {
			return strings.Count(s, string([]byte{c}))
		}
	}
	n := 0
	for _, e := range toSstr(args[0]) {
		if i.truth(i.byteEq(e, args[1])) {
			n++
		}
	}
	return n
}

func extCount(fr *frame, args []value) value {
	i := fr.i
	n := 0
	for _, e := range args[0].([]value) {
		if i.truth(i.byteEq(e, args[1])) {
			n++
		}
	}
	return n
}

func extIndexString(fr *frame, args []value) value {
	i := fr.i
	if a, ok := args[0].(string); ok {
		if b, ok := args[1].(string); ok {
			return strings.Index(a, b)
		}
	}
	a, b := toSstr(args[0]), toSstr(args[1])
	for k := 0; k+len(b) <= len(a); k++ {
		if i.truth(i.strEq(mkStr(a[k:k+len(b)]), mkStr(b))) {
			return k
		}
	}
	return -1
}

func extIndexBytes(fr *frame, args []value) value {
	i := fr.i
	a, b := args[0].([]value), args[1].([]value)
	for k := 0; k+len(b) <= len(a); k++ {
		if i.truth(i.strEq(mkStr(a[k:k+len(b)]), mkStr(b))) {
			return k
		}
	}
	return -1
}

func extCompare(fr *frame, args []value) value {
	i := fr.i
	a, b := args[0].([]value), args[1].([]value)
	n := len(a)
	if len(b) < n {
		n = len(b)
	}
	for k := 0; k < n; k++ {
		if i.truth(i.byteEq(a[k], b[k])) {
			continue
		}
		lt := binop(i, token.LSS, types.Typ[types.Uint8], a[k], b[k])
		if i.truth(lt) {
			return -1
		}
		return 1
	}
	switch {
	case len(a) < len(b):
		return -1
	case len(a) > len(b):
		return 1
	}
	return 0
}

func extCompareString(fr *frame, args []value) value {
	if a, ok := args[0].(string); ok {
		if b, ok := args[1].(string); ok {
			return strings.Compare(a, b)
		}
	}
	return extCompare(fr, []value{[]value(toSstr(args[0])), []value(toSstr(args[1]))})
}

func extBytesEqual(fr *frame, args []value) value {
	a, b := args[0].([]value), args[1].([]value)
	return fr.i.truth(fr.i.strEq(mkStr(a), mkStr(b)))
}

func extMakeNoZero(fr *frame, args []value) value {
	n := int(fr.i.concInt(args[0]))
	out := make([]value, n)
	for k := range out {
		out[k] = uint8(0)
	}
	return out
}

func extBuilderString(fr *frame, args []value) value {
	b := (*args[0].(*value)).(structure)
	// type Builder struct { addr *Builder; buf []byte }
	buf := b[1].([]value)
	return mkStr(append([]value(nil), buf...))
}

// ---- unicode predicate summaries ------------------------------------------------------------------

func uniPred(name string, f func(rune) bool) externalFn {
	var table []uint64
	return func(fr *frame, args []value) value {
		i := fr.i
		sv, ok := args[0].(symv)
		if !ok {
			return f(rune(asInt64(args[0])))
		}
		if table == nil {
			t := make([]uint64, 256)
			for r := 0; r < 256; r++ {
				if f(rune(r)) {
					t[r] = 1
				}
			}
			table = t
		}
		ts := i.ts()
		r := sv.t // 32 bits
		if r.w != 32 {
			panic(engineError{"unicode predicate on non-rune width"})
		}
		// rune domain assumption: r <= 0xFF or r is one of the witnesses
		dom := []*Term{ts.Bin("bvule", r, ts.Const(0xFF, 32))}
		for _, w := range runeWitnesses {
			dom = append(dom, ts.Eq(r, ts.Const(uint64(w), 32)))
		}
		i.path.assume(ts.Or(dom...), "rune-domain")
		low := ts.Eq(ts.Table(table, 1, ts.Extract(7, 0, r), 0), ts.Const(1, 1))
		var hi []*Term
		for _, w := range runeWitnesses {
			if f(w) {
				hi = append(hi, ts.Eq(r, ts.Const(uint64(w), 32)))
			}
		}
		res := ts.Or(ts.And(ts.Bin("bvule", r, ts.Const(0xFF, 32)), low), ts.Or(hi...))
		return mkBool(res)
	}
}

// ---- sync ---------------------------------------------------------------------------------------

func extOnceDo(fr *frame, args []value) value {
	s := fr.i.sch
	key := args[0].(*value)
	o := s.onces[key]
	if o == nil {
		o = &onceState{}
		s.onces[key] = o
	}
	if o.done {
		return nil
	}
	o.done = true
	call(fr.i, fr, token.NoPos, args[1], nil)
	return nil
}

func extPoolGet(fr *frame, args []value) value {
	p := (*args[0].(*value)).(structure)
	// the New field is the last one
	newFn := p[len(p)-1]
	switch f := newFn.(type) {
	case *ssa.Function:
		if f == nil {
			return iface{}
		}
	case nil:
		return iface{}
	}
	return call(fr.i, fr, token.NoPos, newFn, nil)
}

func extAtomicLoad(fr *frame, args []value) value {
	p := args[0].(*value)
	if p == nil {
		fr.i.nilDeref()
	}
	return *p
}

func extAtomicStore(fr *frame, args []value) value {
	p := args[0].(*value)
	if p == nil {
		fr.i.nilDeref()
	}
	*p = args[1]
	return nil
}

func extAtomicAdd(fr *frame, args []value) value {
	p := args[0].(*value)
	if p == nil {
		fr.i.nilDeref()
	}
	*p = binop(fr.i, token.ADD, nil, *p, args[1])
	return *p
}

func extAtomicSwap(fr *frame, args []value) value {
	p := args[0].(*value)
	if p == nil {
		fr.i.nilDeref()
	}
	old := *p
	*p = args[1]
	return old
}

func extAtomicCAS(fr *frame, args []value) value {
	p := args[0].(*value)
	if p == nil {
		fr.i.nilDeref()
	}
	if fr.i.truth(fr.i.eqv(nil, *p, args[1])) {
		*p = args[2]
		return true
	}
	return false
}

// ---- errors -------------------------------------------------------------------------------------

func (i *interpreter) methodOf(it iface, name string) *ssa.Function {
	if it.t == nil {
		return nil
	}
	ms := i.prog.MethodSets.MethodSet(it.t)
	for k := 0; k < ms.Len(); k++ {
		sel := ms.At(k)
		if sel.Obj().Name() == name {
			return i.prog.MethodValue(sel)
		}
	}
	return nil
}

func extErrorsIs(fr *frame, args []value) value {
	i := fr.i
	err, target := args[0].(iface), args[1].(iface)
	if err.t == nil || target.t == nil {
		return err.t == nil && target.t == nil
	}
	var walk func(e iface) bool
	walk = func(e iface) bool {
		for {
			if types.Comparable(target.t) && sameType(e.t, target.t) {
				if i.truth(i.eqv(e.t, e.v, target.v)) {
					return true
				}
			}
			if m := i.methodOf(e, "Is"); m != nil && m.Signature.Params().Len() == 1 {
				if i.truth(call(i, fr, token.NoPos, m, []value{e.v, target})) {
					return true
				}
			}
			m := i.methodOf(e, "Unwrap")
			if m == nil {
				return false
			}
			r := call(i, fr, token.NoPos, m, []value{e.v})
			switch r := r.(type) {
			case iface:
				if r.t == nil {
					return false
				}
				e = r
			case []value:
				for _, x := range r {
					if x.(iface).t != nil && walk(x.(iface)) {
						return true
					}
				}
				return false
			default:
				return false
			}
		}
	}
	return walk(err)
}

func extErrorsAs(fr *frame, args []value) value {
	i := fr.i
	err := args[0].(iface)
	target := args[1].(iface)
	if target.t == nil {
		panic(targetPanic{i.runtimeErr("errors: target cannot be nil")})
	}
	ptr, ok := target.t.Underlying().(*types.Pointer)
	if !ok {
		panic(targetPanic{i.runtimeErr("errors: target must be a non-nil pointer")})
	}
	elem := ptr.Elem()
	for err.t != nil {
		assignable := false
		if it, ok := elem.Underlying().(*types.Interface); ok {
			assignable = types.Implements(err.t, it)
		} else {
			assignable = types.Identical(err.t, elem)
		}
		if assignable {
			dst := target.v.(*value)
			if _, ok := elem.Underlying().(*types.Interface); ok {
				*dst = err
			} else {
				store(elem, dst, err.v)
			}
			return true
		}
		m := i.methodOf(err, "Unwrap")
		if m == nil {
			return false
		}
		r, ok := call(i, fr, token.NoPos, m, []value{err.v}).(iface)
		if !ok {
			return false
		}
		err = r
	}
	return false
}

var _ = sort.Strings
var _ = utf8.RuneError
