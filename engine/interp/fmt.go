package interp

// fmt intrinsics and rendering of values under a model.
// Concrete arguments: the host fmt package does the formatting. Any symbolic argument: the
// result is a unique concrete placeholder string that can be compared for identity but whose
// content must not be inspected; it is expanded with model values when a path is reported.

import (
	"fmt"
	"go/token"
	"go/types"
	"strconv"
	"strings"
)

type obsEntry struct {
	key string
	v   value
}

type hostErr struct{ s string }

func (e hostErr) Error() string { return e.s }

type hostStringer struct{ s string }

func (e hostStringer) String() string { return e.s }

const phOpen, phClose = "\x00⟦", "⟧\x00"

func (p *pathCtx) placeholderFor(kind, format string, args []value) string {
	var b strings.Builder
	b.WriteString(kind)
	b.WriteString("|")
	b.WriteString(format)
	for _, a := range args {
		b.WriteString("|")
		b.WriteString(canonArg(a))
	}
	key := b.String()
	if ph, ok := p.phKeys[key]; ok {
		return ph
	}
	if p.phKeys == nil {
		p.phKeys = map[string]string{}
	}
	p.phN++
	ph := phOpen + strconv.Itoa(p.phN) + phClose
	p.phKeys[key] = ph
	p.phs[ph] = &placeholder{format: format, args: args, kind: kind}
	return ph
}

func canonArg(a value) string {
	switch a := a.(type) {
	case symv:
		return fmt.Sprintf("t%d", a.t.id)
	case symb:
		return fmt.Sprintf("b%d", a.t.id)
	case sstr:
		var b strings.Builder
		b.WriteString("s[")
		for _, e := range a {
			b.WriteString(canonArg(e))
			b.WriteString(",")
		}
		b.WriteString("]")
		return b.String()
	case iface:
		return "i(" + canonArg(a.v) + ")"
	case []value:
		var b strings.Builder
		b.WriteString("[")
		for _, e := range a {
			b.WriteString(canonArg(e))
			b.WriteString(",")
		}
		b.WriteString("]")
		return b.String()
	case structure:
		return canonArg([]value(a))
	case *value:
		return fmt.Sprintf("%p", a)
	}
	return fmt.Sprintf("%T:%v", a, a)
}

// renderStr evaluates a symbolic string under a model.
func (p *pathCtx) renderStr(s sstr, model map[string]uint64) string {
	b := make([]byte, len(s))
	memo := map[*Term]uint64{}
	for k, e := range s {
		switch e := e.(type) {
		case uint8:
			b[k] = e
		case symv:
			b[k] = byte(p.ts.Eval(e.t, model, memo))
		}
	}
	return string(b)
}

// expand replaces placeholders in s by their rendering under the model.
func (p *pathCtx) expand(s string, model map[string]uint64, depth int) string {
	if !strings.Contains(s, phOpen) || depth > 8 {
		return s
	}
	var b strings.Builder
	for {
		k := strings.Index(s, phOpen)
		if k < 0 {
			b.WriteString(s)
			break
		}
		e := strings.Index(s[k:], phClose)
		if e < 0 {
			b.WriteString(s)
			break
		}
		b.WriteString(s[:k])
		ph := s[k : k+e+len(phClose)]
		if d, ok := p.phs[ph]; ok {
			args := make([]interface{}, len(d.args))
			for n, a := range d.args {
				args[n] = p.hostOf(a, model, depth+1)
			}
			switch d.kind {
			case "Sprint":
				b.WriteString(fmt.Sprint(args...))
			case "Sprintln":
				b.WriteString(fmt.Sprintln(args...))
			default:
				b.WriteString(fmt.Sprintf(d.format, args...))
			}
		} else {
			b.WriteString(ph)
		}
		s = s[k+e+len(phClose):]
	}
	return b.String()
}

// hostOf converts an interpreter value to a host value under a model (for rendering only).
func (p *pathCtx) hostOf(v value, model map[string]uint64, depth int) interface{} {
	switch v := v.(type) {
	case string:
		return p.expand(v, model, depth)
	case sstr:
		return p.renderStr(v, model)
	case symv:
		w, signed := kindWidth(v.k)
		u := p.ts.Eval(v.t, model, map[*Term]uint64{})
		if signed {
			return signExt(u, w)
		}
		return u
	case symb:
		return p.ts.Eval(v.t, model, map[*Term]uint64{}) != 0
	case iface:
		if v.t == nil {
			return nil
		}
		if h, ok := v.v.(hostErr); ok {
			return h
		}
		return p.hostOf(v.v, model, depth)
	case hostErr:
		return hostErr{p.expand(v.s, model, depth)}
	case hostStringer:
		return hostStringer{p.expand(v.s, model, depth)}
	case []value:
		out := make([]interface{}, len(v))
		for k := range v {
			out[k] = p.hostOf(v[k], model, depth)
		}
		return out
	case structure:
		out := make([]interface{}, len(v))
		for k := range v {
			out[k] = p.hostOf(v[k], model, depth)
		}
		return out
	case tuple:
		out := make([]interface{}, len(v))
		for k := range v {
			out[k] = p.hostOf(v[k], model, depth)
		}
		return out
	case *value:
		if v == nil {
			return nil
		}
		return fmt.Sprintf("&%v", p.hostOf(*v, model, depth))
	case *smap:
		if v == nil {
			return map[string]interface{}(nil)
		}
		out := map[string]interface{}{}
		for k := range v.keys {
			out[fmt.Sprint(p.hostOf(v.keys[k], model, depth))] = p.hostOf(v.vals[k], model, depth)
		}
		return out
	}
	return v
}

// render produces the text recorded for an observed value.
func (p *pathCtx) render(v value, model map[string]uint64) string {
	h := p.hostOf(v, model, 0)
	switch h := h.(type) {
	case string:
		return strconv.Quote(h)
	}
	return fmt.Sprintf("%v", h)
}

func (p *pathCtx) renderObs(model map[string]uint64) map[string]string {
	out := map[string]string{}
	for _, o := range p.obs {
		out[o.key] = p.render(o.v, model)
	}
	return out
}

// fmtArg converts one interface{} operand to a host value; sym reports symbolic content.
func (i *interpreter) fmtArg(fr *frame, a value) (host interface{}, sym bool) {
	it, ok := a.(iface)
	if !ok {
		panic(engineError{fmt.Sprintf("fmtArg: %T", a)})
	}
	if it.t == nil {
		return nil, false
	}
	// error and Stringer methods are honoured as fmt does for %v %s %q
	if m := i.methodOf(it, "Error"); m != nil && m.Signature.Params().Len() == 0 && m.Signature.Results().Len() == 1 {
		if p, ok := it.v.(*value); ok && p == nil {
			return "<nil>", false
		}
		s := call(i, fr, token.NoPos, m, []value{it.v})
		if ss, ok := s.(sstr); ok {
			return ss, true
		}
		return hostErr{s.(string)}, strings.Contains(s.(string), phOpen)
	}
	if m := i.methodOf(it, "String"); m != nil && m.Signature.Params().Len() == 0 && m.Signature.Results().Len() == 1 {
		if b, ok := m.Signature.Results().At(0).Type().Underlying().(*types.Basic); ok && b.Kind() == types.String {
			if p, ok := it.v.(*value); ok && p == nil {
				return "<nil>", false
			}
			s := call(i, fr, token.NoPos, m, []value{it.v})
			if ss, ok := s.(sstr); ok {
				return ss, true
			}
			return hostStringer{s.(string)}, strings.Contains(s.(string), phOpen)
		}
	}
	return i.fmtVal(it.v)
}

func (i *interpreter) fmtVal(v value) (interface{}, bool) {
	switch v := v.(type) {
	case symv, symb, sstr:
		return v, true
	case string:
		return v, strings.Contains(v, phOpen)
	case []value:
		out := make([]interface{}, len(v))
		sym := false
		allBytes := len(v) > 0
		for k := range v {
			h, s := i.fmtVal(v[k])
			out[k] = h
			sym = sym || s
			if _, ok := h.(uint8); !ok {
				allBytes = false
			}
		}
		if allBytes && !sym {
			b := make([]byte, len(out))
			for k := range out {
				b[k] = out[k].(uint8)
			}
			return b, false
		}
		return out, sym
	case structure:
		out := make([]interface{}, len(v))
		sym := false
		for k := range v {
			h, s := i.fmtVal(v[k])
			out[k] = h
			sym = sym || s
		}
		return fmt.Sprintf("%v", out), sym
	case iface:
		if v.t == nil {
			return nil, false
		}
		return i.fmtVal(v.v)
	case *value:
		if v == nil {
			return nil, false
		}
		return fmt.Sprintf("%p", v), false
	case *smap:
		return "map[...]", false
	}
	return v, false
}

// sprintf implements the formatting family; kind is Sprintf, Sprint or Sprintln.
func (i *interpreter) sprintf(fr *frame, kind, format string, operands []value) string {
	hosts := make([]interface{}, len(operands))
	sym := false
	for k, a := range operands {
		h, s := i.fmtArg(fr, a)
		hosts[k] = h
		sym = sym || s
	}
	if !sym {
		switch kind {
		case "Sprint":
			return fmt.Sprint(hosts...)
		case "Sprintln":
			return fmt.Sprintln(hosts...)
		}
		return fmt.Sprintf(format, hosts...)
	}
	// keep the operands in rendered-later form: unwrap interface boxes
	args := make([]value, len(operands))
	for k := range operands {
		switch h := hosts[k].(type) {
		case symv, symb, sstr:
			args[k] = h
		case hostErr, hostStringer, string:
			args[k] = h
		case nil:
			args[k] = iface{}
		default:
			args[k] = operands[k].(iface).v
		}
	}
	return i.path.placeholderFor(kind, format, args)
}

func (i *interpreter) fmtString(v value) string {
	if s, ok := v.(string); ok {
		return s
	}
	panic(engineError{"format string is symbolic"})
}

func extSprintf(fr *frame, args []value) value {
	return fr.i.sprintf(fr, "Sprintf", fr.i.fmtString(args[0]), args[1].([]value))
}

func extSprint(fr *frame, args []value) value {
	return fr.i.sprintf(fr, "Sprint", "", args[0].([]value))
}

func extSprintln(fr *frame, args []value) value {
	return fr.i.sprintf(fr, "Sprintln", "", args[0].([]value))
}

// wVerbArg returns the operand index consumed by the first %w verb, or -1.
func wVerbArgs(format string) []int {
	var out []int
	arg := 0
	for k := 0; k < len(format); k++ {
		if format[k] != '%' {
			continue
		}
		k++
		for k < len(format) && strings.IndexByte("+-# 0123456789.", format[k]) >= 0 {
			k++
		}
		if k >= len(format) {
			break
		}
		switch format[k] {
		case '%':
		case '*':
			arg++
		case 'w':
			out = append(out, arg)
			arg++
		default:
			arg++
		}
	}
	return out
}

func extErrorf(fr *frame, args []value) value {
	i := fr.i
	format := i.fmtString(args[0])
	ops := args[1].([]value)
	ws := wVerbArgs(format)
	msg := i.sprintf(fr, "Sprintf", strings.ReplaceAll(format, "%w", "%v"), ops)
	if len(ws) == 1 && ws[0] < len(ops) {
		if e, ok := ops[ws[0]].(iface); ok && e.t != nil && i.methodOf(e, "Error") != nil {
			fmtPkg := i.prog.ImportedPackage("fmt")
			wt := fmtPkg.Type("wrapError").Object().Type()
			cell := new(value)
			*cell = structure{msg, e}
			return iface{types.NewPointer(wt), cell}
		}
	}
	if len(ws) > 1 {
		panic(engineError{"fmt.Errorf with several %w is not modelled"})
	}
	return i.callNamed(fr, "errors", "New", []value{msg})
}

// writeTo performs w.Write([]byte(s)) on an io.Writer value of the interpreted program.
func (i *interpreter) writeTo(fr *frame, w value, s string) value {
	it := w.(iface)
	if it.t == nil {
		i.nilDeref()
	}
	m := i.methodOf(it, "Write")
	if m == nil {
		panic(engineError{"writer without Write method"})
	}
	return call(i, fr, token.NoPos, m, []value{it.v, []value(toSstr(s))})
}

func extFprintf(fr *frame, args []value) value {
	s := fr.i.sprintf(fr, "Sprintf", fr.i.fmtString(args[1]), args[2].([]value))
	return fr.i.writeTo(fr, args[0], s)
}

func extFprint(fr *frame, args []value) value {
	s := fr.i.sprintf(fr, "Sprint", "", args[1].([]value))
	return fr.i.writeTo(fr, args[0], s)
}

func extFprintln(fr *frame, args []value) value {
	s := fr.i.sprintf(fr, "Sprintln", "", args[1].([]value))
	return fr.i.writeTo(fr, args[0], s)
}

func (p *pathCtx) stdoutWrite(s string) value {
	p.stdout = append(p.stdout, s)
	return tuple{len(s), iface{}}
}

func extPrintf(fr *frame, args []value) value {
	return fr.i.path.stdoutWrite(fr.i.sprintf(fr, "Sprintf", fr.i.fmtString(args[0]), args[1].([]value)))
}

func extPrint(fr *frame, args []value) value {
	return fr.i.path.stdoutWrite(fr.i.sprintf(fr, "Sprint", "", args[0].([]value)))
}

func extPrintln(fr *frame, args []value) value {
	return fr.i.path.stdoutWrite(fr.i.sprintf(fr, "Sprintln", "", args[0].([]value)))
}
