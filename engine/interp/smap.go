package interp

// Maps of the interpreted program: an insertion-ordered association list with a hash index for
// concrete basic keys. Keys that contain symbolic parts are compared with eqv and a decision.

import (
	"fmt"
	"go/types"
	"unicode/utf8"
)

type smap struct {
	keyType types.Type
	keys    []value
	vals    []value
	idx     map[value]int // concrete basic keys -> position
	nsym    int           // number of keys that are not indexable
}

func makeSmap(kt types.Type) *smap {
	return &smap{keyType: kt, idx: map[value]int{}}
}

// indexable reports whether k can be used as a Go map key with the right equivalence.
func indexable(k value) bool {
	switch k.(type) {
	case bool, int, int8, int16, int32, int64, uint, uint8, uint16, uint32, uint64, uintptr, float32, float64, string, *value, *schan:
		return true
	}
	return false
}

func (m *smap) find(i *interpreter, k value) int {
	if m == nil {
		return -1
	}
	if indexable(k) && m.nsym == 0 {
		if p, ok := m.idx[k]; ok {
			return p
		}
		return -1
	}
	for p, key := range m.keys {
		if indexable(k) && indexable(key) {
			if k == key {
				return p
			}
			continue
		}
		if i.truth(i.eqv(m.keyType, k, key)) {
			return p
		}
	}
	return -1
}

func (m *smap) lookup(i *interpreter, k value) (value, bool) {
	p := m.find(i, k)
	if p < 0 {
		return nil, false
	}
	return m.vals[p], true
}

func (m *smap) insert(i *interpreter, k, v value) {
	if m == nil {
		panic(targetPanic{i.runtimeErr("assignment to entry in nil map")})
	}
	p := m.find(i, k)
	if p >= 0 {
		m.vals[p] = v
		return
	}
	m.keys = append(m.keys, k)
	m.vals = append(m.vals, v)
	if indexable(k) {
		m.idx[k] = len(m.keys) - 1
	} else {
		m.nsym++
	}
}

func (m *smap) delete(i *interpreter, k value) {
	p := m.find(i, k)
	if p < 0 {
		return
	}
	if indexable(m.keys[p]) {
		delete(m.idx, m.keys[p])
	} else {
		m.nsym--
	}
	m.keys = append(m.keys[:p:p], m.keys[p+1:]...)
	m.vals = append(m.vals[:p:p], m.vals[p+1:]...)
	for q := p; q < len(m.keys); q++ {
		if indexable(m.keys[q]) {
			m.idx[m.keys[q]] = q
		}
	}
}

func (m *smap) len() int {
	if m == nil {
		return 0
	}
	return len(m.keys)
}

// ---- iterators ------------------------------------------------------------------------------

type iter interface {
	next(i *interpreter, fr *frame) tuple
}

type smapIter struct {
	m    *smap
	keys []value // snapshot of remaining keys
}

func (it *smapIter) next(i *interpreter, fr *frame) tuple {
	for len(it.keys) > 0 {
		k := 0
		if i.opts.MapOrder && len(it.keys) > 1 && i.mapOrderHere(fr) {
			k = i.path.choose("map", len(it.keys))
		}
		key := it.keys[k]
		it.keys = append(it.keys[:k:k], it.keys[k+1:]...)
		// entries deleted during iteration are not produced
		if indexable(key) {
			if p, ok := it.m.idx[key]; ok {
				return tuple{true, key, it.m.vals[p]}
			}
			continue
		}
		for p, kk := range it.m.keys {
			if sameKeyIdentity(kk, key) {
				return tuple{true, key, it.m.vals[p]}
			}
		}
	}
	return tuple{false, nil, nil}
}

// sameKeyIdentity compares non-indexable keys structurally without decisions (snapshot identity).
func sameKeyIdentity(a, b value) bool {
	return fmt.Sprintf("%#v", a) == fmt.Sprintf("%#v", b)
}

type strIter struct {
	s   value
	pos int
}

func (it *strIter) next(i *interpreter, fr *frame) tuple {
	n := strLen(it.s)
	if it.pos >= n {
		return tuple{false, nil, nil}
	}
	if s, ok := it.s.(string); ok {
		r, w := decodeRuneConcrete(s[it.pos:])
		p := it.pos
		it.pos += w
		return tuple{true, p, r}
	}
	rest := slice(i, it.s, it.pos, nil, nil)
	res := i.callNamed(fr, "unicode/utf8", "DecodeRuneInString", []value{rest}).(tuple)
	p := it.pos
	it.pos += int(i.concInt(res[1]))
	return tuple{true, p, res[0]}
}

func decodeRuneConcrete(s string) (rune, int) {
	return utf8.DecodeRuneInString(s)
}

// mapOrderHere reports whether the iteration order of a range statement in fr is explored.
func (i *interpreter) mapOrderHere(fr *frame) bool {
	if len(i.opts.MapOrderPkgs) == 0 {
		return true
	}
	for f := fr; f != nil; f = f.caller {
		fn := f.fn
		for fn.Parent() != nil {
			fn = fn.Parent()
		}
		if fn.Pkg != nil {
			return hasPrefixAny(fn.Pkg.Pkg.Path(), i.opts.MapOrderPkgs)
		}
		if o := fn.Origin(); o != nil && o.Pkg != nil {
			return hasPrefixAny(o.Pkg.Pkg.Path(), i.opts.MapOrderPkgs)
		}
	}
	return false
}
