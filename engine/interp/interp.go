// Copyright 2013 The Go Authors. All rights reserved.
// Use of this source code is governed by a BSD-style
// license that can be found in the LICENSE file.

// Package interp is a fork of golang.org/x/tools/go/ssa/interp (v0.29.0) turned into a
// symbolic executor ("gosym"): values may be SMT terms, branches on symbolic conditions are
// decided by an SMT solver and explored by re-execution, goroutines run on a cooperative
// scheduler, and a table of intrinsics/redirects replaces what cannot be interpreted.
package interp

import (
	"fmt"
	"go/token"
	"go/types"
	"os"
	"runtime"
	"runtime/debug"
	"slices"
	"strings"

	"golang.org/x/tools/go/ssa"
)

type continuation int

const (
	kNext continuation = iota
	kReturn
	kJump
)

// Mode is a bitmask of options affecting the interpreter.
type Mode uint

const (
	DisableRecover Mode = 1 << iota // Disable recover() in target programs; show interpreter crash instead.
	EnableTracing                   // Print a trace of all instructions as they are interpreted.
)

// Options configure one job.
type Options struct {
	MapOrder bool // explore every iteration order of maps (default: insertion order)
	// MapOrderPkgs restricts MapOrder to range statements in functions of packages with one of
	// these path prefixes (empty = everywhere)
	MapOrderPkgs []string
	Sched        int // SchedLow, SchedHigh, SchedExplore
	// MaxPreempt bounds the preemptive context switches per path under SchedExplore (switches
	// when the running goroutine blocks or exits are always explored)
	MaxPreempt int
	Budget     int // instruction budget per path
	MaxConc    int // maximum number of values enumerated by one concretisation
	Observe    map[string]bool
}

// State shared between all interpreted goroutines of one worker.
type interpreter struct {
	prog               *ssa.Program
	globals            map[*ssa.Global]*value
	setByHarness       map[*ssa.Global]bool // globals of skipped initialisers that the harness stored to on this path
	mode               Mode
	runtimeErrorString types.Type
	sizes              types.Sizes
	eng                *Engine
	path               *pathCtx
	sch                *sched
	opts               Options
	cov                map[*ssa.Function]int64
	id                 int
	initDone           bool
	curFn              *ssa.Function
	sites              map[string]int
}

type deferred struct {
	fn    value
	args  []value
	instr *ssa.Defer
	tail  *deferred
}

type frame struct {
	i                *interpreter
	caller           *frame
	fn               *ssa.Function
	block, prevBlock *ssa.BasicBlock
	env              map[ssa.Value]value // dynamic values of SSA variables
	locals           []value
	defers           *deferred
	result           value
	panicking        bool
	panic            interface{}
	phitemps         []value // temporaries for parallel phi assignment
}

func mustDeref(t types.Type) types.Type {
	if p, ok := t.Underlying().(*types.Pointer); ok {
		return p.Elem()
	}
	panic(engineError{fmt.Sprintf("mustDeref: not a pointer: %s", t)})
}

func hostStack() string {
	s := string(debug.Stack())
	if len(s) > 3000 {
		s = s[:3000]
	}
	return s
}

func (fr *frame) get(key ssa.Value) value {
	switch key := key.(type) {
	case nil:
		// Hack; simplifies handling of optional attributes
		// such as ssa.Slice.{Low,High}.
		return nil
	case *ssa.Function, *ssa.Builtin:
		return key
	case *ssa.Const:
		return constValue(key)
	case *ssa.Global:
		if pkg, bad := fr.i.eng.uninit[key]; bad && !fr.i.setByHarness[key] {
			panic(engineError{fmt.Sprintf("global %s is used by %s but the initialiser of package %s is not run by the engine (it would hold its zero value)", key.String(), fr.fn, pkg)})
		}
		if r, ok := fr.i.globals[key]; ok {
			return r
		}
	}
	if r, ok := fr.env[key]; ok {
		return r
	}
	panic(engineError{fmt.Sprintf("get: no value for %T: %v", key, key.Name())})
}

// passThrough reports whether a recovered panic value must not be seen by the target program.
func passThrough(p interface{}) bool {
	switch p.(type) {
	case pathEnd, abortPath, engineError, exitPanic:
		return true
	}
	return false
}

// runDefer runs a deferred call d.
// It always returns normally, but may set or clear fr.panic.
func (fr *frame) runDefer(d *deferred) {
	var ok bool
	defer func() {
		if !ok {
			// Deferred call created a new state of panic.
			p := recover()
			if passThrough(p) {
				panic(p)
			}
			fr.panicking = true
			fr.panic = p
		}
	}()
	call(fr.i, fr, d.instr.Pos(), d.fn, d.args)
	ok = true
}

// runDefers executes fr's deferred function calls in LIFO order.
func (fr *frame) runDefers() {
	for d := fr.defers; d != nil; d = d.tail {
		fr.runDefer(d)
	}
	fr.defers = nil
	if fr.panicking {
		panic(fr.panic) // new panic, or still panicking
	}
}

// lookupMethod returns the method set for type typ.
func lookupMethod(i *interpreter, typ types.Type, meth *types.Func) *ssa.Function {
	return i.prog.LookupMethod(typ, meth.Pkg(), meth.Name())
}

func (i *interpreter) runtimeErr(msg string) value {
	return iface{i.runtimeErrorString, "runtime error: " + msg}
}

func (i *interpreter) nilDeref() {
	panic(targetPanic{i.runtimeErr("invalid memory address or nil pointer dereference")})
}

// symElemPtr is the address &base[idx] for a symbolic idx.
type symElemPtr struct {
	base []value
	idx  symv
}

func (i *interpreter) checkIndex(idx value, n int) (int64, bool) {
	if sv, ok := idx.(symv); ok {
		ts := i.ts()
		_, signed := kindWidth(sv.k)
		wide := ts.Resize(sv.t, 64, signed)
		oob := ts.Not(ts.Bin("bvult", wide, ts.Const(uint64(n), 64)))
		if i.path.decideBool(oob) {
			panic(targetPanic{i.runtimeErr(fmt.Sprintf("index out of range [symbolic] with length %d", n))})
		}
		return 0, true
	}
	k := asInt64(idx)
	if k < 0 || k >= int64(n) {
		panic(targetPanic{i.runtimeErr(fmt.Sprintf("index out of range [%d] with length %d", k, n))})
	}
	return k, false
}

// loadSymElem reads base[idx] for symbolic idx (idx already known to be in range).
func (i *interpreter) loadSymElem(base []value, idx symv) value {
	ts := i.ts()
	w, _ := kindWidth(idx.k)
	if len(base) == 0 {
		panic(engineError{"loadSymElem: empty base"})
	}
	// integer elements: table or ite chain
	k0, isInt := kindOfValue(base[0])
	if isInt {
		ew, _ := kindWidth(k0)
		allc := true
		vals := make([]uint64, len(base))
		for k, e := range base {
			if _, ok := e.(symv); ok {
				allc = false
				break
			}
			vals[k] = uint64(asInt64(e)) & mask(ew)
		}
		if allc {
			return mkInt(k0, ts.Table(vals, ew, idx.t, 0))
		}
		res := ts.Const(0, ew)
		for k := len(base) - 1; k >= 0; k-- {
			res = ts.Ite(ts.Eq(idx.t, ts.Const(uint64(k), w)), i.termOf(base[k]), res)
		}
		return mkInt(k0, res)
	}
	if _, isBool := base[0].(bool); isBool {
		allc := true
		vals := make([]uint64, len(base))
		for k, e := range base {
			b, ok := e.(bool)
			if !ok {
				allc = false
				break
			}
			if b {
				vals[k] = 1
			}
		}
		if allc {
			t := ts.Table(vals, 1, idx.t, 0)
			return mkBool(ts.Eq(t, ts.Const(1, 1)))
		}
	}
	// aggregates: element-wise selection
	switch b0 := base[0].(type) {
	case structure:
		out := make(structure, len(b0))
		for f := range b0 {
			col := make([]value, len(base))
			for k := range base {
				col[k] = base[k].(structure)[f]
			}
			out[f] = i.loadSymElem(col, idx)
		}
		return out
	case array:
		out := make(array, len(b0))
		for f := range b0 {
			col := make([]value, len(base))
			for k := range base {
				col[k] = base[k].(array)[f]
			}
			out[f] = i.loadSymElem(col, idx)
		}
		return out
	}
	// anything else: concretise the index
	k := i.concInt(idx)
	return base[k]
}

// visitInstr interprets a single ssa.Instruction within the activation
// record frame.  It returns a continuation value indicating where to
// read the next instruction from.
func visitInstr(fr *frame, instr ssa.Instruction) continuation {
	i := fr.i
	switch instr := instr.(type) {
	case *ssa.DebugRef:
		// no-op

	case *ssa.UnOp:
		fr.env[instr] = unop(fr, instr, fr.get(instr.X))

	case *ssa.BinOp:
		fr.env[instr] = binop(i, instr.Op, instr.X.Type(), fr.get(instr.X), fr.get(instr.Y))

	case *ssa.Call:
		fn, args := prepareCall(fr, &instr.Call)
		fr.env[instr] = call(fr.i, fr, instr.Pos(), fn, args)

	case *ssa.ChangeInterface:
		fr.env[instr] = fr.get(instr.X)

	case *ssa.ChangeType:
		fr.env[instr] = fr.get(instr.X) // (can't fail)

	case *ssa.Convert:
		fr.env[instr] = conv(i, instr.Type(), instr.X.Type(), fr.get(instr.X))

	case *ssa.SliceToArrayPointer:
		fr.env[instr] = sliceToArrayPointer(instr.Type(), instr.X.Type(), fr.get(instr.X))

	case *ssa.MakeInterface:
		fr.env[instr] = iface{t: instr.X.Type(), v: fr.get(instr.X)}

	case *ssa.Extract:
		fr.env[instr] = fr.get(instr.Tuple).(tuple)[instr.Index]

	case *ssa.Slice:
		fr.env[instr] = slice(i, fr.get(instr.X), fr.get(instr.Low), fr.get(instr.High), fr.get(instr.Max))

	case *ssa.Return:
		switch len(instr.Results) {
		case 0:
		case 1:
			fr.result = fr.get(instr.Results[0])
		default:
			var res []value
			for _, r := range instr.Results {
				res = append(res, fr.get(r))
			}
			fr.result = tuple(res)
		}
		fr.block = nil
		return kReturn

	case *ssa.RunDefers:
		fr.runDefers()

	case *ssa.Panic:
		panic(targetPanic{fr.get(instr.X)})

	case *ssa.Send:
		i.sch.send(fr.get(instr.Chan).(*schan), fr.get(instr.X))

	case *ssa.Store:
		if g, ok := instr.Addr.(*ssa.Global); ok {
			// a harness may give a value to a global that a skipped package initialiser would
			// have set (os.Args); from then on, on this path, the global may be used
			if _, un := i.eng.uninit[g]; un && fr.fn.Pkg != nil && strings.Contains(fr.fn.Pkg.Pkg.Path(), "/"+harnessDir+"/") {
				if i.setByHarness == nil {
					i.setByHarness = map[*ssa.Global]bool{}
				}
				i.setByHarness[g] = true
			}
		}
		addr := fr.get(instr.Addr)
		switch a := addr.(type) {
		case *value:
			if a == nil {
				i.nilDeref()
			}
			store(mustDeref(instr.Addr.Type()), a, fr.get(instr.Val))
		case symElemPtr:
			k := i.concInt(a.idx)
			store(mustDeref(instr.Addr.Type()), &a.base[k], fr.get(instr.Val))
		default:
			panic(engineError{fmt.Sprintf("store to %T", addr)})
		}

	case *ssa.If:
		succ := 1
		if i.truth(fr.get(instr.Cond)) {
			succ = 0
		}
		fr.prevBlock, fr.block = fr.block, fr.block.Succs[succ]
		return kJump

	case *ssa.Jump:
		fr.prevBlock, fr.block = fr.block, fr.block.Succs[0]
		return kJump

	case *ssa.Defer:
		fn, args := prepareCall(fr, &instr.Call)
		defers := &fr.defers
		if into := fr.get(instr.DeferStack); into != nil {
			defers = into.(**deferred)
		}
		*defers = &deferred{
			fn:    fn,
			args:  args,
			instr: instr,
			tail:  *defers,
		}

	case *ssa.Go:
		fn, args := prepareCall(fr, &instr.Call)
		pos := instr.Pos()
		name := "go@" + i.prog.Fset.Position(pos).String()
		i.sch.spawn(name, func() {
			call(i, nil, pos, fn, args)
		})
		i.sch.yield()

	case *ssa.MakeChan:
		tElt := instr.Type().Underlying().(*types.Chan).Elem()
		fr.env[instr] = i.sch.makeChan(int(i.concInt(fr.get(instr.Size))), zero(tElt))

	case *ssa.Alloc:
		var addr *value
		if instr.Heap {
			// new
			addr = new(value)
			fr.env[instr] = addr
		} else {
			// local
			addr = fr.env[instr].(*value)
		}
		*addr = zero(mustDeref(instr.Type()))

	case *ssa.MakeSlice:
		c := i.concInt(fr.get(instr.Cap))
		l := i.concInt(fr.get(instr.Len))
		if l < 0 || c < l || c > 1<<24 {
			panic(targetPanic{i.runtimeErr("makeslice: len out of range")})
		}
		slice := make([]value, c)
		tElt := instr.Type().Underlying().(*types.Slice).Elem()
		for i := range slice {
			slice[i] = zero(tElt)
		}
		fr.env[instr] = slice[:l]

	case *ssa.MakeMap:
		fr.env[instr] = makeSmap(instr.Type().Underlying().(*types.Map).Key())

	case *ssa.Range:
		fr.env[instr] = rangeIter(fr.get(instr.X), instr.X.Type())

	case *ssa.Next:
		fr.env[instr] = fr.get(instr.Iter).(iter).next(i, fr)

	case *ssa.FieldAddr:
		p := fr.get(instr.X).(*value)
		if p == nil {
			i.nilDeref()
		}
		fr.env[instr] = &(*p).(structure)[instr.Field]

	case *ssa.Field:
		fr.env[instr] = fr.get(instr.X).(structure)[instr.Field]

	case *ssa.IndexAddr:
		x := fr.get(instr.X)
		idx := fr.get(instr.Index)
		var base []value
		switch x := x.(type) {
		case []value:
			base = x
		case *value: // *array
			if x == nil {
				i.nilDeref()
			}
			base = (*x).(array)
		default:
			panic(engineError{fmt.Sprintf("unexpected x type in IndexAddr: %T", x)})
		}
		k, sym := i.checkIndex(idx, len(base))
		if sym {
			fr.env[instr] = symElemPtr{base, idx.(symv)}
		} else {
			fr.env[instr] = &base[k]
		}

	case *ssa.Index:
		x := fr.get(instr.X)
		idx := fr.get(instr.Index)

		switch x := x.(type) {
		case array:
			k, sym := i.checkIndex(idx, len(x))
			if sym {
				fr.env[instr] = i.loadSymElem(x, idx.(symv))
			} else {
				fr.env[instr] = x[k]
			}
		case string, sstr:
			fr.env[instr] = i.strIndex(x, idx)
		default:
			panic(engineError{fmt.Sprintf("unexpected x type in Index: %T", x)})
		}

	case *ssa.Lookup:
		fr.env[instr] = lookup(i, instr, fr.get(instr.X), fr.get(instr.Index))

	case *ssa.MapUpdate:
		m := fr.get(instr.Map)
		key := fr.get(instr.Key)
		v := fr.get(instr.Value)
		switch m := m.(type) {
		case *smap:
			m.insert(i, key, v)
		default:
			panic(engineError{fmt.Sprintf("illegal map type: %T", m)})
		}

	case *ssa.TypeAssert:
		fr.env[instr] = typeAssert(fr.i, instr, fr.get(instr.X).(iface))

	case *ssa.MakeClosure:
		var bindings []value
		for _, binding := range instr.Bindings {
			bindings = append(bindings, fr.get(binding))
		}
		fr.env[instr] = &closure{instr.Fn.(*ssa.Function), bindings}

	case *ssa.Phi:
		panic(engineError{"unreachable: phi"}) // phis are processed at block entry

	case *ssa.Select:
		var cases []selCase
		for _, state := range instr.States {
			c := selCase{send: state.Dir == types.SendOnly, c: fr.get(state.Chan).(*schan)}
			if state.Send != nil {
				c.v = fr.get(state.Send)
			}
			cases = append(cases, c)
		}
		chosen, recv, recvOk := i.sch.selectOp(cases, !instr.Blocking)
		r := tuple{chosen, recvOk}
		for k, st := range instr.States {
			if st.Dir == types.RecvOnly {
				var v value
				if k == chosen && recvOk {
					v = recv
				} else {
					v = zero(st.Chan.Type().Underlying().(*types.Chan).Elem())
				}
				r = append(r, v)
			}
		}
		fr.env[instr] = r

	default:
		panic(engineError{fmt.Sprintf("unexpected instruction: %T", instr)})
	}

	return kNext
}

// prepareCall determines the function value and argument values for a
// function call in a Call, Go or Defer instruction, performing
// interface method lookup if needed.
func prepareCall(fr *frame, call *ssa.CallCommon) (fn value, args []value) {
	v := fr.get(call.Value)
	if call.Method == nil {
		// Function call.
		fn = v
	} else {
		// Interface method invocation.
		recv := v.(iface)
		if recv.t == nil {
			fr.i.nilDeref()
		}
		if f := lookupMethod(fr.i, recv.t, call.Method); f == nil {
			// Unreachable in well-typed programs.
			panic(engineError{fmt.Sprintf("method set for dynamic type %v does not contain %s", recv.t, call.Method)})
		} else {
			fn = f
		}
		args = append(args, recv.v)
	}
	for _, arg := range call.Args {
		args = append(args, fr.get(arg))
	}
	return
}

// call interprets a call to a function (function, builtin or closure)
// fn with arguments args, returning its result.
// callpos is the position of the callsite.
func call(i *interpreter, caller *frame, callpos token.Pos, fn value, args []value) value {
	switch fn := fn.(type) {
	case *ssa.Function:
		if fn == nil {
			i.nilDeref() // nil of func type
		}
		return callSSA(i, caller, callpos, fn, args, nil)
	case *closure:
		return callSSA(i, caller, callpos, fn.Fn, args, fn.Env)
	case *ssa.Builtin:
		return callBuiltin(caller, callpos, fn, args)
	}
	panic(engineError{fmt.Sprintf("cannot call %T", fn)})
}

func loc(fset *token.FileSet, pos token.Pos) string {
	if pos == token.NoPos {
		return ""
	}
	return " at " + fset.Position(pos).String()
}

// callSSA interprets a call to function fn with arguments args,
// and lexical environment env, returning its result.
// callpos is the position of the callsite.
// interpretBody is returned by an intrinsic that declines a call: the function's real SSA body is
// interpreted instead.
type interpretBody struct{}

// harnessDir: the directory (below the module under test) that holds the overlaid harness packages.
const harnessDir = "zzverif"

func callSSA(i *interpreter, caller *frame, callpos token.Pos, fn *ssa.Function, args []value, env []value) value {
	if i.mode&EnableTracing != 0 {
		fset := fn.Prog.Fset
		fmt.Fprintf(os.Stderr, "Entering %s%s.\n", fn, loc(fset, fn.Pos()))
		suffix := ""
		if caller != nil {
			suffix = ", resuming " + caller.fn.String() + loc(fset, callpos)
		}
		defer fmt.Fprintf(os.Stderr, "Leaving %s%s.\n", fn, suffix)
	}
	fr := &frame{
		i:      i,
		caller: caller, // for panic/recover
		fn:     fn,
	}
	if fn.Parent() == nil {
		if d, ok := i.eng.dispatch[fn]; ok {
			switch {
			case d.stop && i.path.prune:
				i.path.reach["stop-at:"+d.name] = true
				i.path.end("ok", "stop-at "+d.name)
			case d.skip:
				return nil
			case d.ext != nil:
				if i.opts.Observe != nil && i.opts.Observe[d.name] {
					i.path.observeCall(d.name, args)
				}
				if r := d.ext(fr, args); r != (interpretBody{}) {
					return r
				}
				// the intrinsic declined (it only covers concrete data): run the real body
				if fn.Blocks == nil {
					panic(engineError{"no code for function: " + fn.String() + " (called from " + callerName(caller) + ")"})
				}
			case d.redirect != nil:
				return callSSA(i, caller, callpos, d.redirect, args, nil)
			case d.observe || d.stop:
				if !d.observe {
					break
				}
				defer func(name string, args []value) {
					i.path.observeCall(name, append(append([]value(nil), args...), fr.result))
				}(d.name, args)
			}
		}
		if fn.Blocks == nil {
			panic(engineError{"no code for function: " + fn.String() + " (called from " + callerName(caller) + ")"})
		}
	}

	// generic function body?
	if fn.TypeParams().Len() > 0 && len(fn.TypeArgs()) == 0 {
		panic(engineError{"interp requires ssa.BuilderMode to include InstantiateGenerics to execute generics"})
	}

	fr.env = make(map[ssa.Value]value)
	fr.block = fn.Blocks[0]
	fr.locals = make([]value, len(fn.Locals))
	for i, l := range fn.Locals {
		fr.locals[i] = zero(mustDeref(l.Type()))
		fr.env[l] = &fr.locals[i]
	}
	for i, p := range fn.Params {
		fr.env[p] = args[i]
	}
	for i, fv := range fn.FreeVars {
		fr.env[fv] = env[i]
	}
	for fr.block != nil {
		runFrame(fr)
	}
	// Destroy the locals to avoid accidental use after return.
	for i := range fn.Locals {
		fr.locals[i] = bad{}
	}
	return fr.result
}

func callerName(fr *frame) string {
	if fr == nil {
		return "<top>"
	}
	return fr.fn.String()
}

// runFrame executes SSA instructions starting at fr.block and
// continuing until a return, a panic, or a recovered panic.
func runFrame(fr *frame) {
	defer func() {
		if fr.block == nil {
			return // normal return
		}
		p := recover()
		if passThrough(p) {
			panic(p)
		}
		// host run-time errors that are not explicit target panics are engine errors,
		// except integer division by zero which the host computes for us.
		if re, ok := p.(runtime.Error); ok {
			if strings.Contains(re.Error(), "divide by zero") {
				p = targetPanic{fr.i.runtimeErr("integer divide by zero")}
			} else {
				pos := ""
				if fr.fn != nil {
					pos = fr.fn.String()
				}
				panic(engineError{fmt.Sprintf("host runtime error in %s: %v\n%s", pos, re, hostStack())})
			}
		}
		if s, ok := p.(string); ok {
			panic(engineError{"interpreter panic: " + s})
		}
		if _, ok := p.(targetPanic); ok && !fr.i.path.panicSeen {
			fr.i.path.panicSeen = true
			var sb strings.Builder
			for f := fr; f != nil; f = f.caller {
				sb.WriteString("\n  at " + f.fn.String())
				if f.block != nil {
					sb.WriteString(fmt.Sprintf(" (block %d)", f.block.Index))
				}
			}
			fr.i.path.panicStack = sb.String()
		}
		fr.panicking = true
		fr.panic = p
		fr.runDefers()
		fr.block = fr.fn.Recover
	}()

	i := fr.i
	for {
		nonPhis := executePhis(fr)
		i.curFn = fr.fn
		n := len(fr.block.Instrs)
		i.path.steps += n
		i.cov[fr.fn] += int64(n)
		if i.path.steps > i.path.budget {
			i.path.end("budget", fmt.Sprintf("instruction budget %d exceeded in %s", i.path.budget, fr.fn))
		}
		for _, instr := range nonPhis {
			if i.mode&EnableTracing != 0 {
				if v, ok := instr.(ssa.Value); ok {
					fmt.Fprintln(os.Stderr, "\t", v.Name(), "=", instr)
				} else {
					fmt.Fprintln(os.Stderr, "\t", instr)
				}
			}
			if visitInstr(fr, instr) == kReturn {
				return
			}
			// Inv: kNext (continue) or kJump (last instr)
		}
	}
}

// executePhis executes the phi-nodes at the start of the current
// block and returns the non-phi instructions.
func executePhis(fr *frame) []ssa.Instruction {
	firstNonPhi := -1
	for i, instr := range fr.block.Instrs {
		if _, ok := instr.(*ssa.Phi); !ok {
			firstNonPhi = i
			break
		}
	}
	// Inv: 0 <= firstNonPhi; every block contains a non-phi.

	nonPhis := fr.block.Instrs[firstNonPhi:]
	if firstNonPhi > 0 {
		phis := fr.block.Instrs[:firstNonPhi]
		predIndex := slices.Index(fr.block.Preds, fr.prevBlock)
		fr.phitemps = fr.phitemps[:0]
		for _, phi := range phis {
			phi := phi.(*ssa.Phi)
			fr.phitemps = append(fr.phitemps, fr.get(phi.Edges[predIndex]))
		}
		for i, phi := range phis {
			fr.env[phi.(*ssa.Phi)] = fr.phitemps[i]
		}
	}
	return nonPhis
}

// doRecover implements the recover() built-in.
func doRecover(caller *frame) value {
	// recover() must be exactly one level beneath the deferred
	// function (two levels beneath the panicking function) to
	// have any effect.  Thus we ignore both "defer recover()" and
	// "defer f() -> g() -> recover()".
	if caller.i.mode&DisableRecover == 0 &&
		caller != nil && !caller.panicking &&
		caller.caller != nil && caller.caller.panicking {
		caller.caller.panicking = false
		p := caller.caller.panic
		caller.caller.panic = nil

		switch p := p.(type) {
		case targetPanic:
			// The target program explicitly called panic().
			return p.v
		default:
			panic(engineError{fmt.Sprintf("unexpected panic type %T in target call to recover()", p)})
		}
	}
	return iface{}
}

func (i *interpreter) panicString(v value) string {
	if it, ok := v.(iface); ok {
		if s, ok := it.v.(string); ok {
			return s
		}
		if it.t != nil {
			// error or Stringer values: try the Error method
			if m := i.prog.LookupMethod(it.t, nil, "Error"); m != nil {
				var out string
				func() {
					defer func() {
						if r := recover(); r != nil {
							if passThrough(r) {
								panic(r)
							}
							out = fmt.Sprintf("%s{...}", it.t)
						}
					}()
					out = i.hostString(call(i, nil, token.NoPos, m, []value{it.v}))
				}()
				return out
			}
		}
	}
	return toString(v)
}
