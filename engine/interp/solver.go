package interp

// One long-lived SMT solver process per worker (z3 -in), SMT-LIB2 over a pipe.

import (
	"bufio"
	"fmt"
	"io"
	"os"
	"os/exec"
	"strconv"
	"strings"
	"time"
)

type SolverStats struct {
	Queries  int
	Sat      int
	Unsat    int
	Unknown  int
	Time     time.Duration
	Skipped  int // branch feasibility decided by the cached model
	Asserted int
}

type solver struct {
	cmd     *exec.Cmd
	in      io.WriteCloser
	out     *bufio.Reader
	emitted map[int]bool    // term ids defined in the current scope
	tblDone map[string]bool // tables defined in the current scope
	stats   SolverStats
	log     io.Writer // optional transcript
	buf     strings.Builder
	dead    bool
}

// SolverCmd is the command line used to start the solver.
var SolverCmd = []string{"z3-new", "-in", "-t:20000"}

func newSolver() (*solver, error) {
	cmd := exec.Command(SolverCmd[0], SolverCmd[1:]...)
	in, err := cmd.StdinPipe()
	if err != nil {
		return nil, err
	}
	out, err := cmd.StdoutPipe()
	if err != nil {
		return nil, err
	}
	cmd.Stderr = os.Stderr
	if err := cmd.Start(); err != nil {
		return nil, err
	}
	s := &solver{cmd: cmd, in: in, out: bufio.NewReaderSize(out, 1<<16), emitted: map[int]bool{}, tblDone: map[string]bool{}}
	s.send("(set-option :print-success false)\n(set-option :produce-models true)\n")
	return s, nil
}

func (s *solver) close() {
	if s == nil || s.dead {
		return
	}
	s.dead = true
	s.flush()
	s.in.Close()
	done := make(chan struct{})
	go func() { s.cmd.Wait(); close(done) }()
	select {
	case <-done:
	case <-time.After(2 * time.Second):
		s.cmd.Process.Kill()
	}
}

func (s *solver) send(text string) {
	s.buf.WriteString(text)
}

func (s *solver) flush() {
	if s.buf.Len() == 0 {
		return
	}
	if s.log != nil {
		io.WriteString(s.log, s.buf.String())
	}
	_, err := io.WriteString(s.in, s.buf.String())
	s.buf.Reset()
	if err != nil {
		panic(engineError{"solver pipe: " + err.Error()})
	}
}

func (s *solver) readLine() string {
	line, err := s.out.ReadString('\n')
	if err != nil {
		panic(engineError{"solver died: " + err.Error()})
	}
	return strings.TrimSpace(line)
}

// readSexp reads one balanced s-expression (possibly spanning lines).
func (s *solver) readSexp() string {
	var b strings.Builder
	depth := 0
	started := false
	for {
		line, err := s.out.ReadString('\n')
		if err != nil {
			panic(engineError{"solver died: " + err.Error()})
		}
		for _, c := range line {
			if c == '(' {
				depth++
				started = true
			} else if c == ')' {
				depth--
			}
		}
		b.WriteString(line)
		if started && depth <= 0 {
			return b.String()
		}
		if !started && strings.TrimSpace(line) != "" {
			return b.String()
		}
	}
}

func (s *solver) beginPath() {
	s.send("(push 1)\n")
	s.emitted = map[int]bool{}
	s.tblDone = map[string]bool{}
}

func (s *solver) endPath() {
	s.send("(pop 1)\n")
	s.flush()
}

// ref returns the SMT text that refers to t, emitting definitions as needed.
func (s *solver) ref(st *termStore, t *Term) string {
	switch t.op {
	case "const":
		return litOf(t.val, t.w)
	case "var":
		if !s.emitted[t.id] {
			s.emitted[t.id] = true
			fmt.Fprintf(&s.buf, "(declare-const %s %s)\n", smtName(t.name), sortOf(t.w))
		}
		return smtName(t.name)
	}
	nm := "t" + strconv.Itoa(t.id)
	if s.emitted[t.id] {
		return nm
	}
	// iterative post-order to avoid deep recursion on long chains
	type fr struct {
		t *Term
		i int
	}
	stack := []fr{{t, 0}}
	for len(stack) > 0 {
		top := &stack[len(stack)-1]
		if top.i < len(top.t.args) {
			a := top.t.args[top.i]
			top.i++
			if a.op != "const" && !s.emitted[a.id] {
				if a.op == "var" {
					s.ref(st, a)
				} else {
					stack = append(stack, fr{a, 0})
				}
			}
			continue
		}
		x := top.t
		stack = stack[:len(stack)-1]
		if s.emitted[x.id] {
			continue
		}
		s.emitted[x.id] = true
		s.define(st, x)
	}
	return nm
}

func (s *solver) argRef(a *Term) string {
	switch a.op {
	case "const":
		return litOf(a.val, a.w)
	case "var":
		return smtName(a.name)
	}
	return "t" + strconv.Itoa(a.id)
}

func (s *solver) define(st *termStore, x *Term) {
	b := &s.buf
	var head string
	switch x.op {
	case "extract":
		head = fmt.Sprintf("(_ extract %d %d)", x.p1, x.p2)
	case "zext":
		head = fmt.Sprintf("(_ zero_extend %d)", x.p1)
	case "sext":
		head = fmt.Sprintf("(_ sign_extend %d)", x.p1)
	case "tbl":
		tb := st.tables[x.name]
		if !s.tblDone[tb.name] {
			s.tblDone[tb.name] = true
			b.WriteString(tb.def_())
			b.WriteString("\n")
		}
		head = tb.name
	default:
		head = x.op
	}
	fmt.Fprintf(b, "(define-fun t%d () %s (%s", x.id, sortOf(x.w), head)
	for _, a := range x.args {
		b.WriteString(" ")
		b.WriteString(s.argRef(a))
	}
	b.WriteString("))\n")
}

func smtName(n string) string {
	return "|" + n + "|"
}

func (s *solver) assert(st *termStore, t *Term) {
	r := s.ref(st, t)
	fmt.Fprintf(&s.buf, "(assert %s)\n", r)
	s.stats.Asserted++
}

type satResult int

const (
	resUnsat satResult = iota
	resSat
	resUnknown
)

// check decides satisfiability of the asserted path condition together with extra (may be nil).
// On sat it returns a model for all declared variables.
func (s *solver) check(st *termStore, extra *Term) (satResult, map[string]uint64) {
	start := time.Now()
	defer func() { s.stats.Time += time.Since(start) }()
	s.stats.Queries++
	if extra != nil {
		r := s.ref(st, extra)
		fmt.Fprintf(&s.buf, "(check-sat-assuming (%s))\n", r)
	} else {
		s.send("(check-sat)\n")
	}
	s.flush()
	var line string
	for {
		line = s.readLine()
		if line != "" {
			break
		}
	}
	if s.log != nil {
		// the answer is recorded in the transcript so that a second solver can be compared with it
		io.WriteString(s.log, "; ANSWER "+line+"\n")
	}
	switch {
	case line == "unsat":
		s.stats.Unsat++
		return resUnsat, nil
	case line == "sat":
		s.stats.Sat++
	case strings.HasPrefix(line, "(error"):
		panic(engineError{"solver error: " + line})
	default:
		s.stats.Unknown++
		return resUnknown, nil
	}
	model := map[string]uint64{}
	if len(st.vars) == 0 {
		return resSat, model
	}
	// only variables already declared to the solver
	var names []string
	for _, v := range st.vars {
		if s.emitted[v.id] {
			names = append(names, v.name)
		}
	}
	if len(names) == 0 {
		return resSat, model
	}
	s.send("(get-value (")
	for _, n := range names {
		s.send(smtName(n))
		s.send(" ")
	}
	s.send("))\n")
	s.flush()
	resp := s.readSexp()
	if strings.Contains(resp, "(error") {
		panic(engineError{"solver error: " + resp})
	}
	parseModel(resp, model)
	return resSat, model
}

// parseModel parses ((|a| #x41) (|b| true) ...).
func parseModel(resp string, model map[string]uint64) {
	i := 0
	n := len(resp)
	for i < n {
		// find "(|" or "(name"
		for i < n && resp[i] != '|' {
			i++
		}
		if i >= n {
			return
		}
		j := i + 1
		for j < n && resp[j] != '|' {
			j++
		}
		if j >= n {
			return
		}
		name := resp[i+1 : j]
		k := j + 1
		for k < n && (resp[k] == ' ' || resp[k] == '\n') {
			k++
		}
		e := k
		for e < n && resp[e] != ')' && resp[e] != '\n' {
			e++
		}
		tok := strings.TrimSpace(resp[k:e])
		var v uint64
		switch {
		case tok == "true":
			v = 1
		case tok == "false":
			v = 0
		case strings.HasPrefix(tok, "#x"):
			v, _ = strconv.ParseUint(tok[2:], 16, 64)
		case strings.HasPrefix(tok, "#b"):
			v, _ = strconv.ParseUint(tok[2:], 2, 64)
		case strings.HasPrefix(tok, "(_ bv"):
			f := strings.Fields(tok[5:])
			v, _ = strconv.ParseUint(f[0], 10, 64)
		}
		model[name] = v
		i = e
	}
}
