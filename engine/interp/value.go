// Copyright 2013 The Go Authors. All rights reserved.
// Use of this source code is governed by a BSD-style
// license that can be found in the LICENSE file.

package interp

// Values
//
// All interpreter values are "boxed" in the empty interface, value.
// The range of possible dynamic types within value are:
//
// - bool
// - numbers (all built-in int/float/complex types are distinguished)
// - string
// - map[value]value --- maps for which  usesBuiltinMap(keyType)
//   *hashmap        --- maps for which !usesBuiltinMap(keyType)
// - chan value
// - []value --- slices
// - iface --- interfaces.
// - structure --- structs.  Fields are ordered and accessed by numeric indices.
// - array --- arrays.
// - *value --- pointers.  Careful: *value is a distinct type from *array etc.
// - *ssa.Function \
//   *ssa.Builtin   } --- functions.  A nil 'func' is always of type *ssa.Function.
//   *closure      /
// - tuple --- as returned by Return, Next, "value,ok" modes, etc.
// - iter --- iterators from 'range' over map or string.
// - bad --- a poison pill for locals that have gone out of scope.
// - rtype -- the interpreter's concrete implementation of reflect.Type
// - **deferred -- the address of a frame's defer stack for a Defer._Stack.
//
// Note that nil is not on this list.
//
// Pay close attention to whether or not the dynamic type is a pointer.
// The compiler cannot help you since value is an empty interface.

import (
	"bytes"
	"fmt"
	"go/types"

	"golang.org/x/tools/go/ssa"
)

type value interface{}

type tuple []value

type array []value

type iface struct {
	t types.Type // never an "untyped" type
	v value
}

type structure []value

type closure struct {
	Fn  *ssa.Function
	Env []value
}

type bad struct{}


// nil-tolerant variant of types.Identical.
func sameType(x, y types.Type) bool {
	if x == nil {
		return y == nil
	}
	return y != nil && types.Identical(x, y)
}

// reflect.Value struct values don't have a fixed shape, since the
// payload can be a scalar or an aggregate depending on the instance.
// So store (and load) can't simply use recursion over the shape of the
// rhs value, or the lhs, to copy the value; we need the static type
// information.  (We can't make reflect.Value a new basic data type
// because its "structness" is exposed to Go programs.)

// load returns the value of type T in *addr.
func load(T types.Type, addr *value) value {
	switch T := T.Underlying().(type) {
	case *types.Struct:
		v := (*addr).(structure)
		a := make(structure, len(v))
		for i := range a {
			a[i] = load(T.Field(i).Type(), &v[i])
		}
		return a
	case *types.Array:
		v := (*addr).(array)
		a := make(array, len(v))
		for i := range a {
			a[i] = load(T.Elem(), &v[i])
		}
		return a
	default:
		return *addr
	}
}

// store stores value v of type T into *addr.
func store(T types.Type, addr *value, v value) {
	switch T := T.Underlying().(type) {
	case *types.Struct:
		lhs := (*addr).(structure)
		rhs := v.(structure)
		for i := range lhs {
			store(T.Field(i).Type(), &lhs[i], rhs[i])
		}
	case *types.Array:
		lhs := (*addr).(array)
		rhs := v.(array)
		for i := range lhs {
			store(T.Elem(), &lhs[i], rhs[i])
		}
	default:
		*addr = v
	}
}

// Prints in the style of built-in println.
// (More or less; in gc println is actually a compiler intrinsic and
// can distinguish println(1) from println(interface{}(1)).)
func writeValue(buf *bytes.Buffer, v value) {
	switch v := v.(type) {
	case nil, bool, int, int8, int16, int32, int64, uint, uint8, uint16, uint32, uint64, uintptr, float32, float64, complex64, complex128, string:
		fmt.Fprintf(buf, "%v", v)

	case *smap:
		buf.WriteString("map[")
		if v != nil {
			for i, k := range v.keys {
				if i > 0 {
					buf.WriteString(" ")
				}
				writeValue(buf, k)
				buf.WriteString(":")
				writeValue(buf, v.vals[i])
			}
		}
		buf.WriteString("]")

	case symv:
		fmt.Fprintf(buf, "sym<%s>", v.t)
	case symb:
		fmt.Fprintf(buf, "symb<%s>", v.t)
	case sstr:
		buf.WriteString(sstrDebug(v))

	case *schan:
		fmt.Fprintf(buf, "%p", v) // (an address)

	case *value:
		if v == nil {
			buf.WriteString("<nil>")
		} else {
			fmt.Fprintf(buf, "%p", v)
		}

	case iface:
		fmt.Fprintf(buf, "(%s, ", v.t)
		writeValue(buf, v.v)
		buf.WriteString(")")

	case structure:
		buf.WriteString("{")
		for i, e := range v {
			if i > 0 {
				buf.WriteString(" ")
			}
			writeValue(buf, e)
		}
		buf.WriteString("}")

	case array:
		buf.WriteString("[")
		for i, e := range v {
			if i > 0 {
				buf.WriteString(" ")
			}
			writeValue(buf, e)
		}
		buf.WriteString("]")

	case []value:
		buf.WriteString("[")
		for i, e := range v {
			if i > 0 {
				buf.WriteString(" ")
			}
			writeValue(buf, e)
		}
		buf.WriteString("]")

	case *ssa.Function, *ssa.Builtin, *closure:
		fmt.Fprintf(buf, "%p", v) // (an address)

	case tuple:
		// Unreachable in well-formed Go programs
		buf.WriteString("(")
		for i, e := range v {
			if i > 0 {
				buf.WriteString(", ")
			}
			writeValue(buf, e)
		}
		buf.WriteString(")")

	default:
		fmt.Fprintf(buf, "<%T>", v)
	}
}

// Implements printing of Go values in the style of built-in println.
func toString(v value) string {
	var b bytes.Buffer
	writeValue(&b, v)
	return b.String()
}

