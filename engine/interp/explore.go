package interp

// Path exploration by re-execution: a path is identified by its decision vector.

import (
	"fmt"
	"sort"
	"strings"
	"sync"
	"time"
)

// Decision is one recorded nondeterministic choice of a path.
type Decision struct {
	Kind    string   `json:"k"` // br, conc, choice, sched, map, sel
	Arity   int      `json:"n"`
	Chosen  int      `json:"c"`
	Val     uint64   `json:"v,omitempty"`
	Excl    []uint64 `json:"x,omitempty"`
	Pending bool     `json:"p,omitempty"` // conc: value still to be found
}

type workItem struct {
	prefix []Decision
	model  map[string]uint64
}

// Violation describes one failed assertion instance on one path.
type Violation struct {
	ID        string            `json:"id"`
	Msg       string            `json:"msg,omitempty"`
	Model     map[string]uint64 `json:"model"`
	Decisions []Decision        `json:"decisions"`
	Observed  map[string]string `json:"observed,omitempty"`
	Job       string            `json:"job,omitempty"`
	Params    map[string]string `json:"params,omitempty"`
}

// PathRecord is what one explored path leaves behind.
type PathRecord struct {
	End        string            `json:"end"` // ok cut crash budget deadlock engine-error infeasible unknown
	Detail     string            `json:"detail,omitempty"`
	Steps      int               `json:"steps"`
	Decisions  int               `json:"decisions"`
	Reach      []string          `json:"reach,omitempty"`
	Observed   map[string]string `json:"observed,omitempty"`
	Violations []Violation       `json:"violations,omitempty"`
	Oblig      int               `json:"oblig"`
	Discharged int               `json:"discharged"`
	Model      map[string]uint64 `json:"model,omitempty"`
	Leaked     int               `json:"leaked,omitempty"`
	Cuts       []string          `json:"cuts,omitempty"`
	Unknowns   int               `json:"unknowns,omitempty"`
	Trace      []Decision        `json:"-"`
}

// engineError is raised (as a panic) for conditions that are the engine's fault.
type engineError struct{ msg string }

func (e engineError) Error() string { return "engine: " + e.msg }

// pathEnd is the sentinel panic that unwinds an interpreted goroutine when the path is over.
type pathEnd struct {
	kind   string
	detail string
}

// abortPath unwinds a parked goroutine after the path has ended.
type abortPath struct{}

// pathCtx is the state of the path being executed.
type pathCtx struct {
	i       *interpreter
	ts      *termStore
	sol     *solver
	prefix  []Decision
	trace   []Decision
	model   map[string]uint64
	alts    []workItem
	rec     PathRecord
	steps   int
	budget  int
	reach   map[string]bool
	phs     map[string]*placeholder // fmt placeholders
	phN     int
	ended   bool
	params  map[string]string
	calls   map[string][][]value // observed calls
	evalMem map[*Term]uint64
	maxConc int
	obs     []obsEntry
	phKeys  map[string]string
	stdout  []string
	known   map[int]bool
	prune   bool
	choices map[string]uint64 // values of harness Choice()s; not SMT variables, merged into every reported model
	panicSeen  bool
	panicStack string
}

type placeholder struct {
	format string
	args   []value
	kind   string
}

func (p *pathCtx) site(kind string) {
	if p.i.sites == nil {
		return
	}
	name := "?"
	if p.i.curFn != nil {
		name = p.i.curFn.String()
	}
	p.i.sites[kind+" "+name]++
}

func (p *pathCtx) replaying() bool { return len(p.trace) < len(p.prefix) }

func (p *pathCtx) eval(t *Term) uint64 {
	if p.evalMem == nil {
		p.evalMem = map[*Term]uint64{}
	}
	return p.ts.Eval(t, p.model, p.evalMem)
}

func (p *pathCtx) setModel(m map[string]uint64) {
	p.model = m
	p.evalMem = nil
}

func (p *pathCtx) end(kind, detail string) {
	panic(pathEnd{kind, detail})
}

func (p *pathCtx) mismatch(want string, d Decision) {
	panic(engineError{fmt.Sprintf("re-execution diverged at decision %d: code asks for %s, prefix has %s/%d", len(p.trace), want, d.Kind, d.Arity)})
}

func (p *pathCtx) assertPC(t *Term) {
	if t.isConst() {
		if t.val == 0 {
			panic(engineError{"asserting constant false into the path condition"})
		}
		return
	}
	if v, ok := p.knownLit(t); ok && v {
		return
	}
	p.learn(t, true)
	p.sol.assert(p.ts, t)
}

// learn records that literal t has truth value v on this path (and simple consequences).
func (p *pathCtx) learn(t *Term, v bool) {
	if p.known == nil {
		p.known = map[int]bool{}
	}
	for t.op == "not" {
		t = t.args[0]
		v = !v
	}
	p.known[t.id] = v
	switch {
	case t.op == "and" && v:
		for _, a := range t.args {
			p.learn(a, true)
		}
	case t.op == "or" && !v:
		for _, a := range t.args {
			p.learn(a, false)
		}
	}
}

// knownLit reports whether the truth value of t is already fixed by the asserted literals.
func (p *pathCtx) knownLit(t *Term) (bool, bool) {
	neg := false
	for t.op == "not" {
		t = t.args[0]
		neg = !neg
	}
	if v, ok := p.known[t.id]; ok {
		return v != neg, true
	}
	switch t.op {
	case "and":
		all := true
		for _, a := range t.args {
			v, ok := p.knownLit(a)
			if ok && !v {
				return neg, true
			}
			if !ok {
				all = false
			}
		}
		if all {
			return !neg, true
		}
	case "or":
		all := true
		for _, a := range t.args {
			v, ok := p.knownLit(a)
			if ok && v {
				return !neg, true
			}
			if !ok {
				all = false
			}
		}
		if all {
			return neg, true
		}
	}
	return false, false
}

// decideBool forks on a symbolic boolean.
func (p *pathCtx) decideBool(c *Term) bool {
	if c.isConst() {
		return c.val != 0
	}
	if v, ok := p.knownLit(c); ok {
		p.sol.stats.Skipped++
		return v
	}
	if p.replaying() {
		d := p.prefix[len(p.trace)]
		if d.Kind != "br" {
			p.mismatch("br", d)
		}
		p.trace = append(p.trace, d)
		if d.Chosen == 0 {
			p.assertPC(c)
			return true
		}
		p.assertPC(p.ts.Not(c))
		return false
	}
	p.site("br")
	mv := p.eval(c) != 0
	var other *Term
	if mv {
		other = p.ts.Not(c)
	} else {
		other = c
	}
	res, m2 := p.sol.check(p.ts, other)
	chosen := 1
	if mv {
		chosen = 0
	}
	switch res {
	case resSat:
		alt := append(append([]Decision(nil), p.trace...), Decision{Kind: "br", Arity: 2, Chosen: 1 - chosen})
		p.alts = append(p.alts, workItem{alt, m2})
	case resUnknown:
		p.rec.Unknowns++
	}
	p.trace = append(p.trace, Decision{Kind: "br", Arity: 2, Chosen: chosen})
	if mv {
		p.assertPC(c)
	} else {
		p.assertPC(p.ts.Not(c))
	}
	return mv
}

// choose takes a concrete n-way nondeterministic choice; every outcome is feasible.
func (p *pathCtx) choose(kind string, n int) int {
	if n <= 1 {
		return 0
	}
	if p.replaying() {
		d := p.prefix[len(p.trace)]
		if d.Kind != kind || d.Arity != n {
			p.mismatch(fmt.Sprintf("%s/%d", kind, n), d)
		}
		p.trace = append(p.trace, d)
		return d.Chosen
	}
	for k := n - 1; k >= 1; k-- {
		alt := append(append([]Decision(nil), p.trace...), Decision{Kind: kind, Arity: n, Chosen: k})
		p.alts = append(p.alts, workItem{alt, p.model})
	}
	p.trace = append(p.trace, Decision{Kind: kind, Arity: n, Chosen: 0})
	return 0
}

// concretize picks a concrete value for a symbolic bit-vector and queues the other values.
func (p *pathCtx) concretize(t *Term) uint64 {
	if t.isConst() {
		return t.val
	}
	notIn := func(excl []uint64) *Term {
		var cs []*Term
		for _, e := range excl {
			cs = append(cs, p.ts.Not(p.ts.Eq(t, p.ts.Const(e, t.w))))
		}
		return p.ts.And(cs...)
	}
	if p.replaying() {
		d := p.prefix[len(p.trace)]
		if d.Kind != "conc" {
			p.mismatch("conc", d)
		}
		if d.Pending {
			// find a value outside the excluded ones
			ex := notIn(d.Excl)
			p.assertPC(ex)
			res, m2 := p.sol.check(p.ts, nil)
			if res == resUnsat {
				p.end("infeasible", "")
			}
			if res == resUnknown {
				p.rec.Unknowns++
				p.end("unknown", "solver unknown while enumerating values")
			}
			p.setModel(m2)
			v := p.eval(t)
			d.Pending = false
			d.Val = v
			if len(d.Excl)+1 < p.maxConc {
				alt := append(append([]Decision(nil), p.trace...), Decision{Kind: "conc", Excl: append(append([]uint64(nil), d.Excl...), v), Pending: true})
				p.alts = append(p.alts, workItem{alt, nil})
			} else {
				p.rec.Unknowns++
				p.rec.Cuts = append(p.rec.Cuts, "concretize: more than maxConc values")
			}
			p.trace = append(p.trace, d)
			p.assertPC(p.ts.Eq(t, p.ts.Const(v, t.w)))
			return v
		}
		p.trace = append(p.trace, d)
		p.assertPC(p.ts.Eq(t, p.ts.Const(d.Val, t.w)))
		return d.Val
	}
	p.site("conc")
	v := p.eval(t)
	alt := append(append([]Decision(nil), p.trace...), Decision{Kind: "conc", Excl: []uint64{v}, Pending: true})
	p.alts = append(p.alts, workItem{alt, nil})
	p.trace = append(p.trace, Decision{Kind: "conc", Val: v})
	p.assertPC(p.ts.Eq(t, p.ts.Const(v, t.w)))
	return v
}

// assume adds c to the path condition; the path is cut if that makes it infeasible.
func (p *pathCtx) assume(c *Term, label string) {
	if c.isConst() {
		if c.val == 0 {
			p.rec.Cuts = append(p.rec.Cuts, label)
			p.end("cut", label)
		}
		return
	}
	p.assertPC(c)
	if p.replaying() {
		return
	}
	if p.eval(c) != 0 {
		return
	}
	res, m2 := p.sol.check(p.ts, nil)
	switch res {
	case resUnsat:
		p.rec.Cuts = append(p.rec.Cuts, label)
		p.end("cut", label)
	case resUnknown:
		p.rec.Unknowns++
		p.end("unknown", "solver unknown in assume "+label)
	}
	p.setModel(m2)
}

// check discharges an assertion instance.
func (p *pathCtx) assert(c *Term, id, msg string) {
	if p.replaying() {
		// assertions inside the replayed prefix were discharged by the parent path
		if !c.isConst() {
			p.assertPC(c)
		} else if c.val == 0 {
			p.end("ok", "after-violation")
		}
		return
	}
	p.rec.Oblig++
	if c.isConst() {
		if c.val != 0 {
			p.rec.Discharged++
			return
		}
		p.violation(id, msg, p.model)
		p.end("ok", "after-violation")
	}
	if p.eval(c) == 0 {
		p.violation(id, msg, p.model)
		// continue under c if possible
		res, m2 := p.sol.check(p.ts, c)
		if res != resSat {
			if res == resUnknown {
				p.rec.Unknowns++
			}
			p.end("ok", "after-violation")
		}
		p.assertPC(c)
		p.setModel(m2)
		return
	}
	res, m2 := p.sol.check(p.ts, p.ts.Not(c))
	switch res {
	case resUnsat:
		p.rec.Discharged++
	case resSat:
		p.violation(id, msg, m2)
	case resUnknown:
		p.rec.Unknowns++
	}
	p.assertPC(c)
}

func (p *pathCtx) violation(id, msg string, model map[string]uint64) {
	v := Violation{ID: id, Msg: msg, Model: p.fullModel(model), Decisions: append([]Decision(nil), p.trace...)}
	v.Observed = p.renderObs(model)
	p.rec.Violations = append(p.rec.Violations, v)
}

// fullModel returns model extended with the path's concrete choices.
func (p *pathCtx) fullModel(model map[string]uint64) map[string]uint64 {
	out := copyModel(model)
	for k, v := range p.choices {
		out[k] = v
	}
	return out
}

func copyModel(m map[string]uint64) map[string]uint64 {
	out := make(map[string]uint64, len(m))
	for k, v := range m {
		out[k] = v
	}
	return out
}

// ---------------------------------------------------------------------------------------------
// Explorer: shared work-list and result aggregation for one job.

// JobResult aggregates the exploration of one harness invocation.
type JobResult struct {
	Job        string            `json:"job"`
	Params     map[string]string `json:"params"`
	Paths      int               `json:"paths"`
	Ends       map[string]int    `json:"ends"`
	Decisions  int               `json:"decisions"`
	Steps      int64             `json:"steps"`
	Oblig      int               `json:"obligations"`
	Discharged int               `json:"discharged"`
	Reach      map[string]int    `json:"reach"`
	ReachModel map[string]map[string]uint64 `json:"-"`
	Cuts       map[string]int    `json:"cuts,omitempty"`
	Unknowns   int               `json:"unknowns"`
	Violations []Violation       `json:"violations,omitempty"`
	EngineErrs []string          `json:"engine_errors,omitempty"`
	Abnormal   []AbnormalEnd     `json:"abnormal,omitempty"`
	Samples    []PathSample      `json:"samples,omitempty"`
	Leaked     int               `json:"leaked_goroutines,omitempty"`
	MaxSteps   int               `json:"max_steps"`
	Wall       float64           `json:"wall_s"`
	Solver     SolverStats       `json:"solver"`
	Funcs      map[string]int64  `json:"-"`
	Sites      map[string]int    `json:"sites,omitempty"`
	Truncated  bool              `json:"truncated,omitempty"`
}

// AbnormalEnd is a path that ended by crash, deadlock, budget or exit.
type AbnormalEnd struct {
	End      string            `json:"end"`
	Detail   string            `json:"detail"`
	Model    map[string]uint64 `json:"model"`
	Observed map[string]string `json:"observed,omitempty"`
	Decisions []Decision       `json:"decisions,omitempty"`
}

// PathSample is a concrete witness of one explored path.
type PathSample struct {
	Model    map[string]uint64 `json:"model"`
	Observed map[string]string `json:"observed,omitempty"`
	End      string            `json:"end"`
	Detail   string            `json:"detail,omitempty"`
	Reach    []string          `json:"reach,omitempty"`
}

type explorer struct {
	mu       sync.Mutex
	cond     *sync.Cond
	work     []workItem
	busy     int
	res      *JobResult
	maxPaths int
	stop     bool
	sampleEvery int
}

func newExplorer(job string, params map[string]string) *explorer {
	e := &explorer{res: &JobResult{Job: job, Params: params, Ends: map[string]int{}, Reach: map[string]int{}, ReachModel: map[string]map[string]uint64{}, Cuts: map[string]int{}, Funcs: map[string]int64{}}}
	e.cond = sync.NewCond(&e.mu)
	e.work = []workItem{{nil, map[string]uint64{}}}
	return e
}

func (e *explorer) get() (workItem, bool) {
	e.mu.Lock()
	defer e.mu.Unlock()
	for {
		if e.stop {
			return workItem{}, false
		}
		if n := len(e.work); n > 0 {
			w := e.work[n-1]
			e.work = e.work[:n-1]
			e.busy++
			return w, true
		}
		if e.busy == 0 {
			e.cond.Broadcast()
			return workItem{}, false
		}
		e.cond.Wait()
	}
}

func (e *explorer) put(rec *PathRecord, alts []workItem) {
	e.mu.Lock()
	defer e.mu.Unlock()
	e.busy--
	e.work = append(e.work, alts...)
	r := e.res
	if rec.End != "infeasible" {
		r.Paths++
	}
	r.Ends[rec.End]++
	r.Decisions += rec.Decisions
	r.Steps += int64(rec.Steps)
	if rec.Steps > r.MaxSteps {
		r.MaxSteps = rec.Steps
	}
	r.Oblig += rec.Oblig
	r.Discharged += rec.Discharged
	r.Unknowns += rec.Unknowns
	r.Leaked += rec.Leaked
	for _, l := range rec.Reach {
		r.Reach[l]++
		if _, ok := r.ReachModel[l]; !ok {
			r.ReachModel[l] = rec.Model
		}
	}
	for _, c := range rec.Cuts {
		r.Cuts[c]++
	}
	switch rec.End {
	case "crash", "deadlock", "budget", "exit", "unknown":
		if len(r.Abnormal) < 200 {
			r.Abnormal = append(r.Abnormal, AbnormalEnd{rec.End, rec.Detail, rec.Model, rec.Observed, rec.Trace})
		}
	}
	if rec.End == "engine-error" {
		if len(r.EngineErrs) < 20 {
			r.EngineErrs = append(r.EngineErrs, rec.Detail)
		}
	}
	if len(r.Violations) < 2000 {
		r.Violations = append(r.Violations, rec.Violations...)
	}
	if rec.End != "infeasible" && (len(r.Samples) < 5 || (r.Paths%e.sampleEvery == 0 && len(r.Samples) < 40)) {
		r.Samples = append(r.Samples, PathSample{Model: rec.Model, Observed: rec.Observed, End: rec.End, Detail: rec.Detail, Reach: rec.Reach})
	}
	if e.maxPaths > 0 && r.Paths >= e.maxPaths && !e.stop {
		e.stop = true
		r.Truncated = true
	}
	e.cond.Broadcast()
}

// summarize produces a compact description of a model: byte variables named x[i] are joined.
func ModelString(m map[string]uint64) string {
	keys := make([]string, 0, len(m))
	for k := range m {
		keys = append(keys, k)
	}
	sort.Strings(keys)
	var b strings.Builder
	for _, k := range keys {
		fmt.Fprintf(&b, "%s=%d ", k, m[k])
	}
	return strings.TrimSpace(b.String())
}

var _ = time.Now
