package interp

// Cooperative scheduler: exactly one interpreted goroutine runs at a time; control changes
// hands only at synchronising operations. Channels, WaitGroups, mutexes are engine objects.

import (
	"fmt"
	"sync"
)

const (
	gRunnable = iota
	gRunning
	gBlocked
	gDone
)

// Scheduling modes.
const (
	SchedLow     = iota // run until block, then lowest id runnable
	SchedHigh           // run until block, then highest id runnable
	SchedExplore        // every choice at every synchronising operation is a decision
)

type goroutine struct {
	id      int
	wake    chan struct{}
	state   int
	abort   bool
	what    string // what it is blocked on
	recvVal value
	recvOk  bool
	sendVal value
	selCase int
	fired   bool
	name    string
}

type sched struct {
	i     *interpreter
	gs    []*goroutine
	cur   *goroutine
	mode  int
	// preemption bounding (explore mode): a switch away from a goroutine that could have
	// continued is a preemption; at most maxPreempt of them happen on one path
	preempts   int
	maxPreempt int
	hosts sync.WaitGroup // host goroutines of this path
	done  chan struct{}  // closed by the goroutine that ends the path
	once  sync.Once
	wgs   map[*value]*wgState
	mus   map[*value]*muState
	onces map[*value]*onceState
	ops   int
}

type wgState struct {
	n       int
	waiters []*goroutine
}

type muState struct {
	locked  bool
	readers int
	waiters []*goroutine
}

type onceState struct {
	done bool
}

type waitq struct {
	g    *goroutine
	sel  *selWait // non-nil if part of a select
	idx  int
	val  value // for senders
}

type selWait struct {
	fired bool
}

type schan struct {
	buf    []value
	cap    int
	closed bool
	recvq  []*waitq
	sendq  []*waitq
	elem   value // zero value of the element type
	id     int
}

func newSched(i *interpreter, mode int) *sched {
	return &sched{i: i, mode: mode, maxPreempt: i.opts.MaxPreempt, done: make(chan struct{}), wgs: map[*value]*wgState{}, mus: map[*value]*muState{}, onces: map[*value]*onceState{}}
}

// spawn creates an interpreted goroutine running f; it does not start running until scheduled.
func (s *sched) spawn(name string, f func()) *goroutine {
	g := &goroutine{id: len(s.gs), wake: make(chan struct{}, 1), state: gRunnable, name: name}
	s.gs = append(s.gs, g)
	s.hosts.Add(1)
	go func() {
		defer s.hosts.Done()
		<-g.wake
		if g.abort {
			return
		}
		defer func() {
			r := recover()
			switch r := r.(type) {
			case nil:
			case abortPath:
				return
			case pathEnd:
				s.finish(r.kind, r.detail)
				return
			case engineError:
				s.finish("engine-error", r.msg)
				return
			case targetPanic:
				s.finish("crash", "panic in goroutine "+g.name+": "+s.i.panicString(r.v)+s.i.path.panicStack)
				return
			case exitPanic:
				s.finish("exit", fmt.Sprintf("os.Exit(%d)", int(r)))
				return
			default:
				s.finish("engine-error", fmt.Sprintf("host panic in goroutine %s: %v\n%s", g.name, r, hostStack()))
				return
			}
			// normal termination of this goroutine
			g.state = gDone
			if g.id == 0 {
				s.finish("ok", "")
				return
			}
			defer func() {
				// pick may end the path (deadlock)
				if r := recover(); r != nil {
					switch r := r.(type) {
					case pathEnd:
						s.finish(r.kind, r.detail)
					case abortPath:
					case engineError:
						s.finish("engine-error", r.msg)
					default:
						s.finish("engine-error", fmt.Sprint(r))
					}
				}
			}()
			next := s.pick(nil)
			if next == nil {
				s.i.path.end("deadlock", s.describe())
			}
			s.handTo(next)
		}()
		g.state = gRunning
		s.cur = g
		f()
	}()
	return g
}

// finish ends the path (first caller wins) and lets the controller take over.
func (s *sched) finish(kind, detail string) {
	s.once.Do(func() {
		p := s.i.path
		p.ended = true
		p.rec.End = kind
		p.rec.Detail = detail
		n := 0
		for _, g := range s.gs {
			if g.id != 0 && g.state != gDone {
				n++
			}
		}
		p.rec.Leaked = n
		close(s.done)
	})
}

// handTo transfers the baton to g; the caller must stop running interpreted code afterwards
// (either it parks itself right after, or it is exiting).
func (s *sched) handTo(g *goroutine) {
	g.state = gRunning
	s.cur = g
	g.wake <- struct{}{}
}

// parkSelf blocks the current host goroutine until it is handed the baton again.
func (s *sched) parkSelf(g *goroutine) {
	<-g.wake
	if g.abort {
		panic(abortPath{})
	}
	g.state = gRunning
	s.cur = g
}

func (s *sched) runnable() []*goroutine {
	var out []*goroutine
	for _, g := range s.gs {
		if g.state == gRunnable || g.state == gRunning {
			out = append(out, g)
		}
	}
	return out
}

// pick selects the next goroutine to run among the runnable ones (nil if none).
func (s *sched) pick(self *goroutine) *goroutine {
	rs := s.runnable()
	if len(rs) == 0 {
		return nil
	}
	switch s.mode {
	case SchedLow:
		return rs[0]
	case SchedHigh:
		return rs[len(rs)-1]
	default:
		k := s.i.path.choose("sched", len(rs))
		return rs[k]
	}
}

// yield is a scheduling point before a synchronising operation (explore mode only).
func (s *sched) yield() {
	s.ops++
	if s.mode != SchedExplore {
		return
	}
	g := s.cur
	if s.preempts >= s.maxPreempt {
		return
	}
	// choice 0 = carry on; the others preempt the current goroutine
	var others []*goroutine
	for _, o := range s.gs {
		if o != g && (o.state == gRunnable || o.state == gRunning) {
			others = append(others, o)
		}
	}
	if len(others) == 0 {
		return
	}
	k := s.i.path.choose("sched", len(others)+1)
	if k == 0 {
		return
	}
	s.preempts++
	g.state = gRunnable
	s.handTo(others[k-1])
	s.parkSelf(g)
}

// block parks the current goroutine until another goroutine makes it runnable.
func (s *sched) block(what string) {
	g := s.cur
	g.state = gBlocked
	g.what = what
	next := s.pick(g)
	if next == nil {
		s.i.path.end("deadlock", s.describe())
	}
	s.handTo(next)
	s.parkSelf(g)
}

func (s *sched) ready(g *goroutine) {
	if g.state == gBlocked {
		g.state = gRunnable
	}
}

func (s *sched) describe() string {
	out := "all goroutines are asleep:"
	for _, g := range s.gs {
		if g.state == gBlocked {
			out += fmt.Sprintf(" g%d(%s) blocked on %s;", g.id, g.name, g.what)
		}
	}
	return out
}

// teardown aborts every host goroutine of the path and waits for them.
func (s *sched) teardown() {
	for _, g := range s.gs {
		g.abort = true
		select {
		case g.wake <- struct{}{}:
		default:
		}
	}
	s.hosts.Wait()
}

// ---- channels -------------------------------------------------------------------------------

func (s *sched) makeChan(capacity int, zeroElem value) *schan {
	return &schan{cap: capacity, elem: zeroElem}
}

func dequeue(q *[]*waitq) *waitq {
	for len(*q) > 0 {
		w := (*q)[0]
		*q = (*q)[1:]
		if w.sel != nil {
			if w.sel.fired {
				continue
			}
			w.sel.fired = true
		}
		return w
	}
	return nil
}

func (s *sched) send(c *schan, v value) {
	s.yield()
	if c == nil {
		s.block("send on nil channel")
		panic(engineError{"woken from nil channel send"})
	}
	if c.closed {
		panic(targetPanic{s.i.runtimeErr("send on closed channel")})
	}
	if w := dequeue(&c.recvq); w != nil {
		w.g.recvVal, w.g.recvOk, w.g.selCase = v, true, w.idx
		s.ready(w.g)
		return
	}
	if len(c.buf) < c.cap {
		c.buf = append(c.buf, v)
		return
	}
	g := s.cur
	c.sendq = append(c.sendq, &waitq{g: g, val: v})
	g.recvOk = true
	s.block("chan send")
	if !g.recvOk {
		// woken by close
		panic(targetPanic{s.i.runtimeErr("send on closed channel")})
	}
}

func (s *sched) recv(c *schan) (value, bool) {
	s.yield()
	if c == nil {
		s.block("receive from nil channel")
		panic(engineError{"woken from nil channel receive"})
	}
	if v, ok, done := s.tryRecv(c); done {
		return v, ok
	}
	g := s.cur
	c.recvq = append(c.recvq, &waitq{g: g})
	s.block("chan receive")
	return g.recvVal, g.recvOk
}

// tryRecv performs a receive if it can proceed without blocking.
func (s *sched) tryRecv(c *schan) (value, bool, bool) {
	if len(c.buf) > 0 {
		v := c.buf[0]
		c.buf = c.buf[1:]
		if w := dequeue(&c.sendq); w != nil {
			c.buf = append(c.buf, w.val)
			w.g.selCase = w.idx
			s.ready(w.g)
		}
		return v, true, true
	}
	if w := dequeue(&c.sendq); w != nil {
		w.g.selCase = w.idx
		s.ready(w.g)
		return w.val, true, true
	}
	if c.closed {
		return c.elem, false, true
	}
	return nil, false, false
}

func (s *sched) trySend(c *schan, v value) bool {
	if c.closed {
		panic(targetPanic{s.i.runtimeErr("send on closed channel")})
	}
	if w := dequeue(&c.recvq); w != nil {
		w.g.recvVal, w.g.recvOk, w.g.selCase = v, true, w.idx
		s.ready(w.g)
		return true
	}
	if len(c.buf) < c.cap {
		c.buf = append(c.buf, v)
		return true
	}
	return false
}

func (s *sched) closeChan(c *schan) {
	s.yield()
	if c == nil {
		panic(targetPanic{s.i.runtimeErr("close of nil channel")})
	}
	if c.closed {
		panic(targetPanic{s.i.runtimeErr("close of closed channel")})
	}
	c.closed = true
	for {
		w := dequeue(&c.recvq)
		if w == nil {
			break
		}
		w.g.recvVal, w.g.recvOk, w.g.selCase = c.elem, false, w.idx
		s.ready(w.g)
	}
	for {
		w := dequeue(&c.sendq)
		if w == nil {
			break
		}
		w.g.recvOk = false // signals "closed" to the sender
		w.g.selCase = w.idx
		s.ready(w.g)
	}
}

type selCase struct {
	send bool
	c    *schan
	v    value
}

// selectOp implements select; returns chosen index (-1 = default), received value and ok.
func (s *sched) selectOp(cases []selCase, hasDefault bool) (int, value, bool) {
	s.yield()
	var ready []int
	for k, cs := range cases {
		if cs.c == nil {
			continue
		}
		if cs.send {
			if cs.c.closed || len(cs.c.recvq) > 0 && liveQ(cs.c.recvq) || len(cs.c.buf) < cs.c.cap {
				ready = append(ready, k)
			}
		} else {
			if len(cs.c.buf) > 0 || liveQ(cs.c.sendq) || cs.c.closed {
				ready = append(ready, k)
			}
		}
	}
	if len(ready) > 0 {
		k := ready[0]
		if len(ready) > 1 {
			k = ready[s.i.path.choose("sel", len(ready))]
		}
		cs := cases[k]
		if cs.send {
			if !s.trySend(cs.c, cs.v) {
				panic(engineError{"select: ready send could not proceed"})
			}
			return k, nil, false
		}
		v, ok, done := s.tryRecv(cs.c)
		if !done {
			panic(engineError{"select: ready receive could not proceed"})
		}
		return k, v, ok
	}
	if hasDefault {
		return -1, nil, false
	}
	g := s.cur
	sw := &selWait{}
	any := false
	for k, cs := range cases {
		if cs.c == nil {
			continue
		}
		any = true
		w := &waitq{g: g, sel: sw, idx: k, val: cs.v}
		if cs.send {
			cs.c.sendq = append(cs.c.sendq, w)
		} else {
			cs.c.recvq = append(cs.c.recvq, w)
		}
	}
	_ = any
	g.recvOk = true
	g.selCase = -2
	s.block("select")
	k := g.selCase
	if k < 0 {
		panic(engineError{"select woken without a case"})
	}
	if cases[k].send {
		if !g.recvOk {
			panic(targetPanic{s.i.runtimeErr("send on closed channel")})
		}
		return k, nil, false
	}
	return k, g.recvVal, g.recvOk
}

func liveQ(q []*waitq) bool {
	for _, w := range q {
		if w.sel == nil || !w.sel.fired {
			return true
		}
	}
	return false
}

// ---- sync objects ---------------------------------------------------------------------------

func (s *sched) wgAdd(key *value, delta int) {
	s.yield()
	w := s.wgs[key]
	if w == nil {
		w = &wgState{}
		s.wgs[key] = w
	}
	w.n += delta
	if w.n < 0 {
		panic(targetPanic{s.i.runtimeErr("sync: negative WaitGroup counter")})
	}
	if w.n == 0 {
		for _, g := range w.waiters {
			s.ready(g)
		}
		w.waiters = nil
	}
}

func (s *sched) wgWait(key *value) {
	s.yield()
	w := s.wgs[key]
	if w == nil || w.n == 0 {
		return
	}
	w.waiters = append(w.waiters, s.cur)
	s.block("WaitGroup.Wait")
}

func (s *sched) muLock(key *value, read bool) {
	s.yield()
	m := s.mus[key]
	if m == nil {
		m = &muState{}
		s.mus[key] = m
	}
	for {
		if read {
			if !m.locked {
				m.readers++
				return
			}
		} else if !m.locked && m.readers == 0 {
			m.locked = true
			return
		}
		m.waiters = append(m.waiters, s.cur)
		s.block("Mutex.Lock")
	}
}

func (s *sched) muTryLock(key *value) bool {
	m := s.mus[key]
	if m == nil {
		m = &muState{}
		s.mus[key] = m
	}
	if !m.locked && m.readers == 0 {
		m.locked = true
		return true
	}
	return false
}

func (s *sched) muUnlock(key *value, read bool) {
	m := s.mus[key]
	if m == nil {
		m = &muState{}
		s.mus[key] = m
	}
	if read {
		if m.readers == 0 {
			panic(targetPanic{s.i.runtimeErr("sync: RUnlock of unlocked RWMutex")})
		}
		m.readers--
	} else {
		if !m.locked {
			panic(targetPanic{s.i.runtimeErr("sync: unlock of unlocked mutex")})
		}
		m.locked = false
	}
	for _, g := range m.waiters {
		s.ready(g)
	}
	m.waiters = nil
}

// quiesce lets every other goroutine run until none of them is runnable any more; the caller
// keeps the baton afterwards. Used by harnesses to look for leaked goroutines.
func (s *sched) quiesce() {
	g := s.cur
	for {
		var others []*goroutine
		for _, o := range s.gs {
			if o != g && (o.state == gRunnable || o.state == gRunning) {
				others = append(others, o)
			}
		}
		if len(others) == 0 {
			return
		}
		next := others[0]
		switch s.mode {
		case SchedHigh:
			next = others[len(others)-1]
		case SchedExplore:
			next = others[s.i.path.choose("sched", len(others))]
		}
		g.state = gRunnable
		s.handTo(next)
		s.parkSelf(g)
	}
}
