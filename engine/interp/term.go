package interp

// SMT terms: hash-consed DAG of QF_BV terms, built by the symbolic cases of
// binop/unop/conv and printed as SMT-LIB2 for the solver.

import (
	"fmt"
	"sort"
	"strings"
)

// Term is a bit-vector (w>0) or boolean (w==0) SMT term.
type Term struct {
	op   string // "var" "const" or an SMT operator name; "tbl" for table look-ups
	args []*Term
	w    int    // width in bits; 0 = Bool
	val  uint64 // for const
	name string // for var / tbl
	p1   int    // extract hi / extension amount
	p2   int    // extract lo
	id   int
	key  string
}

func (t *Term) isConst() bool { return t.op == "const" }
func (t *Term) IsBool() bool  { return t.w == 0 }

func mask(w int) uint64 {
	if w >= 64 {
		return ^uint64(0)
	}
	return (uint64(1) << uint(w)) - 1
}

// table of concrete values indexed by a symbolic term.
type smtTable struct {
	name string
	vals []uint64
	iw   int // index width
	ew   int // element width
	def  uint64
}

// termStore owns all terms of one path.
type termStore struct {
	byKey  map[string]*Term
	nextID int
	tables map[string]*smtTable
	vars   []*Term
	varBy  map[string]*Term
}

func newTermStore() *termStore {
	return &termStore{byKey: map[string]*Term{}, tables: map[string]*smtTable{}, varBy: map[string]*Term{}}
}

func (s *termStore) intern(t *Term) *Term {
	var b strings.Builder
	b.WriteString(t.op)
	fmt.Fprintf(&b, "|%d|%d|%d|%d|%s", t.w, t.val, t.p1, t.p2, t.name)
	for _, a := range t.args {
		fmt.Fprintf(&b, ",%d", a.id)
	}
	k := b.String()
	if old, ok := s.byKey[k]; ok {
		return old
	}
	s.nextID++
	t.id = s.nextID
	t.key = k
	s.byKey[k] = t
	return t
}

func (s *termStore) Var(name string, w int) *Term {
	if v, ok := s.varBy[name]; ok {
		if v.w != w {
			panic(engineError{fmt.Sprintf("variable %s redeclared with width %d (was %d)", name, w, v.w)})
		}
		return v
	}
	v := s.intern(&Term{op: "var", name: name, w: w})
	s.varBy[name] = v
	s.vars = append(s.vars, v)
	return v
}

func (s *termStore) Const(v uint64, w int) *Term {
	return s.intern(&Term{op: "const", val: v & mask(w), w: w})
}

func (s *termStore) Bool(b bool) *Term {
	v := uint64(0)
	if b {
		v = 1
	}
	return s.intern(&Term{op: "const", val: v, w: 0})
}

func signExt(v uint64, w int) int64 {
	if w >= 64 {
		return int64(v)
	}
	sh := uint(64 - w)
	return int64(v<<sh) >> sh
}

// evalOp computes an operator on concrete operand values.
func evalOp(op string, w int, aw int, p1, p2 int, a []uint64) uint64 {
	m := mask(w)
	b2u := func(b bool) uint64 {
		if b {
			return 1
		}
		return 0
	}
	switch op {
	case "bvadd":
		return (a[0] + a[1]) & m
	case "bvsub":
		return (a[0] - a[1]) & m
	case "bvmul":
		return (a[0] * a[1]) & m
	case "bvudiv":
		if a[1] == 0 {
			return m
		}
		return (a[0] / a[1]) & m
	case "bvurem":
		if a[1] == 0 {
			return a[0]
		}
		return (a[0] % a[1]) & m
	case "bvsdiv":
		x, y := signExt(a[0], w), signExt(a[1], w)
		if y == 0 {
			if x < 0 {
				return 1
			}
			return m
		}
		if y == -1 {
			return uint64(-x) & m
		}
		return uint64(x/y) & m
	case "bvsrem":
		x, y := signExt(a[0], w), signExt(a[1], w)
		if y == 0 {
			return a[0]
		}
		if y == -1 {
			return 0
		}
		return uint64(x%y) & m
	case "bvand":
		return a[0] & a[1]
	case "bvor":
		return a[0] | a[1]
	case "bvxor":
		return a[0] ^ a[1]
	case "bvnot":
		return ^a[0] & m
	case "bvneg":
		return (-a[0]) & m
	case "bvshl":
		if a[1] >= uint64(w) {
			return 0
		}
		return (a[0] << a[1]) & m
	case "bvlshr":
		if a[1] >= uint64(w) {
			return 0
		}
		return (a[0] >> a[1]) & m
	case "bvashr":
		x := signExt(a[0], w)
		if a[1] >= uint64(w) {
			if x < 0 {
				return m
			}
			return 0
		}
		return uint64(x>>a[1]) & m
	case "bvult":
		return b2u(a[0] < a[1])
	case "bvule":
		return b2u(a[0] <= a[1])
	case "bvslt":
		return b2u(signExt(a[0], aw) < signExt(a[1], aw))
	case "bvsle":
		return b2u(signExt(a[0], aw) <= signExt(a[1], aw))
	case "=":
		return b2u(a[0] == a[1])
	case "not":
		return a[0] ^ 1
	case "and":
		for _, x := range a {
			if x == 0 {
				return 0
			}
		}
		return 1
	case "or":
		for _, x := range a {
			if x != 0 {
				return 1
			}
		}
		return 0
	case "ite":
		if a[0] != 0 {
			return a[1]
		}
		return a[2]
	case "extract":
		return (a[0] >> uint(p2)) & mask(p1-p2+1)
	case "zext":
		return a[0]
	case "sext":
		return uint64(signExt(a[0], aw)) & m
	case "concat":
		// a[0] high, a[1] low ; p1 = width of low
		return ((a[0] << uint(p1)) | a[1]) & m
	}
	panic(engineError{"evalOp: unknown op " + op})
}

// mk builds an operator application with constant folding.
func (s *termStore) mk(op string, w int, p1, p2 int, args ...*Term) *Term {
	allc := true
	for _, a := range args {
		if !a.isConst() {
			allc = false
			break
		}
	}
	if allc && op != "tbl" {
		vals := make([]uint64, len(args))
		for i, a := range args {
			vals[i] = a.val
		}
		aw := 0
		if len(args) > 0 {
			aw = args[0].w
		}
		r := evalOp(op, w, aw, p1, p2, vals)
		if w == 0 {
			return s.Bool(r != 0)
		}
		return s.Const(r, w)
	}
	// light simplifications
	switch op {
	case "not":
		if args[0].op == "not" {
			return args[0].args[0]
		}
	case "and":
		var out []*Term
		for _, a := range args {
			if a.isConst() {
				if a.val == 0 {
					return s.Bool(false)
				}
				continue
			}
			out = append(out, a)
		}
		if len(out) == 0 {
			return s.Bool(true)
		}
		if len(out) == 1 {
			return out[0]
		}
		args = out
	case "or":
		var out []*Term
		for _, a := range args {
			if a.isConst() {
				if a.val != 0 {
					return s.Bool(true)
				}
				continue
			}
			out = append(out, a)
		}
		if len(out) == 0 {
			return s.Bool(false)
		}
		if len(out) == 1 {
			return out[0]
		}
		args = out
	case "ite":
		if args[0].isConst() {
			if args[0].val != 0 {
				return args[1]
			}
			return args[2]
		}
		if args[1] == args[2] {
			return args[1]
		}
	case "=":
		if args[0] == args[1] {
			return s.Bool(true)
		}
		if args[0].w == 0 {
			// boolean equality with constant
			if args[1].isConst() {
				if args[1].val != 0 {
					return args[0]
				}
				return s.mk("not", 0, 0, 0, args[0])
			}
			if args[0].isConst() {
				if args[0].val != 0 {
					return args[1]
				}
				return s.mk("not", 0, 0, 0, args[1])
			}
		}
	case "bvadd", "bvor", "bvxor":
		if args[1].isConst() && args[1].val == 0 {
			return args[0]
		}
		if args[0].isConst() && args[0].val == 0 {
			return args[1]
		}
	case "bvsub", "bvshl", "bvlshr", "bvashr":
		if args[1].isConst() && args[1].val == 0 {
			return args[0]
		}
	case "extract":
		if p2 == 0 && p1 == args[0].w-1 {
			return args[0]
		}
		// extract of zext/sext within the original width
		if (args[0].op == "zext" || args[0].op == "sext") && p1 < args[0].args[0].w {
			return s.mk("extract", w, p1, p2, args[0].args[0])
		}
	case "zext", "sext":
		if w == args[0].w {
			return args[0]
		}
	}
	return s.intern(&Term{op: op, w: w, p1: p1, p2: p2, args: args})
}

func (s *termStore) Not(a *Term) *Term       { return s.mk("not", 0, 0, 0, a) }
func (s *termStore) And(a ...*Term) *Term    { return s.mk("and", 0, 0, 0, a...) }
func (s *termStore) Or(a ...*Term) *Term     { return s.mk("or", 0, 0, 0, a...) }
func (s *termStore) Eq(a, b *Term) *Term     { return s.mk("=", 0, 0, 0, a, b) }
func (s *termStore) Ite(c, a, b *Term) *Term { return s.mk("ite", a.w, 0, 0, c, a, b) }
func (s *termStore) Bin(op string, a, b *Term) *Term {
	w := a.w
	switch op {
	case "bvult", "bvule", "bvslt", "bvsle":
		w = 0
	}
	return s.mk(op, w, 0, 0, a, b)
}
func (s *termStore) Extract(hi, lo int, a *Term) *Term {
	return s.mk("extract", hi-lo+1, hi, lo, a)
}

// Resize converts a to width w, sign- or zero-extending or truncating.
func (s *termStore) Resize(a *Term, w int, signed bool) *Term {
	switch {
	case w == a.w:
		return a
	case w < a.w:
		return s.Extract(w-1, 0, a)
	case signed:
		return s.mk("sext", w, w-a.w, 0, a)
	default:
		return s.mk("zext", w, w-a.w, 0, a)
	}
}

// Table returns the term tbl[idx] for a concrete table.
func (s *termStore) Table(vals []uint64, ew int, idx *Term, def uint64) *Term {
	if idx.isConst() {
		if idx.val < uint64(len(vals)) {
			return s.Const(vals[idx.val], ew)
		}
		return s.Const(def, ew)
	}
	var b strings.Builder
	fmt.Fprintf(&b, "%d/%d/%d:", idx.w, ew, def)
	for _, v := range vals {
		fmt.Fprintf(&b, "%x,", v)
	}
	k := b.String()
	tb, ok := s.tables[k]
	if !ok {
		tb = &smtTable{name: fmt.Sprintf("tbl%d", len(s.tables)), vals: append([]uint64(nil), vals...), iw: idx.w, ew: ew, def: def}
		s.tables[k] = tb
	}
	t := s.intern(&Term{op: "tbl", w: ew, name: k, args: []*Term{idx}})
	return t
}

// Eval evaluates t under the model (missing variables are 0).
func (s *termStore) Eval(t *Term, model map[string]uint64, memo map[*Term]uint64) uint64 {
	if t.op == "const" {
		return t.val
	}
	if v, ok := memo[t]; ok {
		return v
	}
	var r uint64
	switch t.op {
	case "var":
		r = model[t.name] & mask(t.w)
		if t.w == 0 {
			r = model[t.name] & 1
		}
	case "tbl":
		tb := s.tables[t.name]
		i := s.Eval(t.args[0], model, memo)
		if i < uint64(len(tb.vals)) {
			r = tb.vals[i]
		} else {
			r = tb.def
		}
	case "ite":
		if s.Eval(t.args[0], model, memo) != 0 {
			r = s.Eval(t.args[1], model, memo)
		} else {
			r = s.Eval(t.args[2], model, memo)
		}
	case "and":
		r = 1
		for _, a := range t.args {
			if s.Eval(a, model, memo) == 0 {
				r = 0
				break
			}
		}
	case "or":
		r = 0
		for _, a := range t.args {
			if s.Eval(a, model, memo) != 0 {
				r = 1
				break
			}
		}
	default:
		vals := make([]uint64, len(t.args))
		for i, a := range t.args {
			vals[i] = s.Eval(a, model, memo)
		}
		aw := 0
		if len(t.args) > 0 {
			aw = t.args[0].w
		}
		r = evalOp(t.op, t.w, aw, t.p1, t.p2, vals)
	}
	memo[t] = r
	return r
}

func sortOf(w int) string {
	if w == 0 {
		return "Bool"
	}
	return fmt.Sprintf("(_ BitVec %d)", w)
}

func litOf(v uint64, w int) string {
	if w == 0 {
		if v != 0 {
			return "true"
		}
		return "false"
	}
	return fmt.Sprintf("(_ bv%d %d)", v&mask(w), w)
}

// tableDef renders a table as a define-fun with a run-length compacted ite chain.
func (tb *smtTable) def_() string {
	var b strings.Builder
	fmt.Fprintf(&b, "(define-fun %s ((i %s)) %s ", tb.name, sortOf(tb.iw), sortOf(tb.ew))
	// runs
	type run struct {
		lo, hi int
		v      uint64
	}
	var runs []run
	for i, v := range tb.vals {
		if uint64(i) > mask(tb.iw) {
			break
		}
		if n := len(runs); n > 0 && runs[n-1].v == v {
			runs[n-1].hi = i
		} else {
			runs = append(runs, run{i, i, v})
		}
	}
	// group runs by value so the most common value becomes the default where possible
	closes := 0
	for _, r := range runs {
		if r.lo == r.hi {
			fmt.Fprintf(&b, "(ite (= i %s) %s ", litOf(uint64(r.lo), tb.iw), litOf(r.v, tb.ew))
		} else if r.lo == 0 {
			fmt.Fprintf(&b, "(ite (bvule i %s) %s ", litOf(uint64(r.hi), tb.iw), litOf(r.v, tb.ew))
		} else {
			fmt.Fprintf(&b, "(ite (and (bvuge i %s) (bvule i %s)) %s ", litOf(uint64(r.lo), tb.iw), litOf(uint64(r.hi), tb.iw), litOf(r.v, tb.ew))
		}
		closes++
	}
	b.WriteString(litOf(tb.def, tb.ew))
	b.WriteString(strings.Repeat(")", closes))
	b.WriteString(")")
	return b.String()
}

// String renders a term (for placeholders and debugging), bounded in size.
func (t *Term) String() string {
	var b strings.Builder
	t.write(&b, 6)
	return b.String()
}

func (t *Term) write(b *strings.Builder, depth int) {
	switch t.op {
	case "var":
		b.WriteString(t.name)
	case "const":
		if t.w == 0 {
			b.WriteString(litOf(t.val, 0))
		} else {
			fmt.Fprintf(b, "%d", t.val)
		}
	default:
		if depth == 0 {
			fmt.Fprintf(b, "t%d", t.id)
			return
		}
		b.WriteString("(")
		b.WriteString(t.op)
		if t.op == "extract" {
			fmt.Fprintf(b, "[%d:%d]", t.p1, t.p2)
		}
		for _, a := range t.args {
			b.WriteString(" ")
			a.write(b, depth-1)
		}
		b.WriteString(")")
	}
}

// vars returns the variables occurring in t (sorted by name).
func (t *Term) freeVars() []string {
	seen := map[*Term]bool{}
	var out []string
	var rec func(*Term)
	rec = func(x *Term) {
		if seen[x] {
			return
		}
		seen[x] = true
		if x.op == "var" {
			out = append(out, x.name)
		}
		for _, a := range x.args {
			rec(a)
		}
	}
	rec(t)
	sort.Strings(out)
	return out
}
