package interp

// Symbolic value domain: symv (machine integers as bit-vectors of their Go width),
// symb (booleans), sstr (strings some of whose bytes are symbolic; length always concrete).

import (
	"fmt"
	"go/token"
	"go/types"
	"strings"
	"unicode/utf8"
)

type symv struct {
	k types.BasicKind
	t *Term
}

type symb struct {
	t *Term
}

// sstr is a string value whose elements are uint8 or symv{Uint8}.
type sstr []value

func kindWidth(k types.BasicKind) (int, bool) {
	switch k {
	case types.Int, types.Int64:
		return 64, true
	case types.Int32:
		return 32, true
	case types.Int16:
		return 16, true
	case types.Int8:
		return 8, true
	case types.Uint, types.Uint64, types.Uintptr:
		return 64, false
	case types.Uint32:
		return 32, false
	case types.Uint16:
		return 16, false
	case types.Uint8:
		return 8, false
	}
	return 0, false
}

func kindOfValue(x value) (types.BasicKind, bool) {
	switch x := x.(type) {
	case symv:
		return x.k, true
	case int:
		return types.Int, true
	case int8:
		return types.Int8, true
	case int16:
		return types.Int16, true
	case int32:
		return types.Int32, true
	case int64:
		return types.Int64, true
	case uint:
		return types.Uint, true
	case uint8:
		return types.Uint8, true
	case uint16:
		return types.Uint16, true
	case uint32:
		return types.Uint32, true
	case uint64:
		return types.Uint64, true
	case uintptr:
		return types.Uintptr, true
	}
	return 0, false
}

func isSym(x value) bool {
	switch x.(type) {
	case symv, symb, sstr:
		return true
	}
	return false
}

// concreteOfKind builds the Go value of kind k holding the (masked) bits v.
func concreteOfKind(k types.BasicKind, v uint64) value {
	switch k {
	case types.Int:
		return int(int64(v))
	case types.Int8:
		return int8(v)
	case types.Int16:
		return int16(v)
	case types.Int32:
		return int32(v)
	case types.Int64:
		return int64(v)
	case types.Uint:
		return uint(v)
	case types.Uint8:
		return uint8(v)
	case types.Uint16:
		return uint16(v)
	case types.Uint32:
		return uint32(v)
	case types.Uint64:
		return v
	case types.Uintptr:
		return uintptr(v)
	}
	panic(engineError{fmt.Sprintf("concreteOfKind: kind %v", k)})
}

func (i *interpreter) ts() *termStore { return i.path.ts }

// termOf returns the term of an integer value (concrete or symbolic).
func (i *interpreter) termOf(x value) *Term {
	switch x := x.(type) {
	case symv:
		return x.t
	case symb:
		return x.t
	case bool:
		return i.ts().Bool(x)
	}
	k, ok := kindOfValue(x)
	if !ok {
		panic(engineError{fmt.Sprintf("termOf: not an integer: %T", x)})
	}
	w, _ := kindWidth(k)
	return i.ts().Const(uint64(asInt64(x)), w)
}

// mkInt wraps a term as a value of kind k, folding constants to concrete values.
func mkInt(k types.BasicKind, t *Term) value {
	if t.isConst() {
		return concreteOfKind(k, t.val)
	}
	return symv{k, t}
}

func mkBool(t *Term) value {
	if t.isConst() {
		return t.val != 0
	}
	return symb{t}
}

// truth turns a boolean value into a Go bool, forking if it is symbolic.
func (i *interpreter) truth(v value) bool {
	switch v := v.(type) {
	case bool:
		return v
	case symb:
		return i.path.decideBool(v.t)
	}
	panic(engineError{fmt.Sprintf("truth: %T", v)})
}

// concInt turns an integer value into an int64, forking over its values if symbolic.
func (i *interpreter) concInt(v value) int64 {
	if s, ok := v.(symv); ok {
		w, signed := kindWidth(s.k)
		u := i.path.concretize(s.t)
		if signed {
			return signExt(u, w)
		}
		return int64(u)
	}
	return asInt64(v)
}

func (i *interpreter) concValue(v value) value {
	switch s := v.(type) {
	case symv:
		return concreteOfKind(s.k, i.path.concretize(s.t))
	case symb:
		return i.path.decideBool(s.t)
	case sstr:
		b := make([]byte, len(s))
		for k, e := range s {
			b[k] = byte(i.concInt(e))
		}
		return string(b)
	}
	return v
}

// symBinop handles binary operators when at least one operand is symbolic.
func (i *interpreter) symBinop(op token.Token, t types.Type, x, y value) value {
	ts := i.ts()
	// strings
	if isStrVal(x) || isStrVal(y) {
		return i.strBinop(op, x, y)
	}
	// booleans
	if _, ok := x.(symb); ok || isBoolVal(x) {
		a, b := i.termOf(x), i.termOf(y)
		switch op {
		case token.EQL:
			return mkBool(ts.Eq(a, b))
		case token.NEQ:
			return mkBool(ts.Not(ts.Eq(a, b)))
		case token.AND, token.LAND:
			return mkBool(ts.And(a, b))
		case token.OR, token.LOR:
			return mkBool(ts.Or(a, b))
		}
		panic(engineError{fmt.Sprintf("symBinop: bool op %s", op)})
	}
	kx, okx := kindOfValue(x)
	if !okx {
		panic(engineError{fmt.Sprintf("symBinop: unsupported operand %T %s %T", x, op, y)})
	}
	w, signed := kindWidth(kx)
	a := i.termOf(x)
	switch op {
	case token.SHL, token.SHR:
		ky, _ := kindOfValue(y)
		wy, sy := kindWidth(ky)
		b := i.termOf(y)
		if sy {
			if i.path.decideBool(ts.Bin("bvslt", b, ts.Const(0, wy))) {
				panic(targetPanic{i.runtimeErr("negative shift amount")})
			}
		}
		var amt *Term
		switch {
		case wy == w:
			amt = b
		case wy < w:
			amt = ts.Resize(b, w, false)
		default:
			big := ts.Not(ts.Bin("bvult", b, ts.Const(uint64(w), wy)))
			amt = ts.Ite(big, ts.Const(uint64(w), w), ts.Extract(w-1, 0, b))
		}
		switch {
		case op == token.SHL:
			return mkInt(kx, ts.Bin("bvshl", a, amt))
		case signed:
			return mkInt(kx, ts.Bin("bvashr", a, amt))
		default:
			return mkInt(kx, ts.Bin("bvlshr", a, amt))
		}
	}
	b := i.termOf(y)
	if b.w != a.w {
		panic(engineError{fmt.Sprintf("symBinop: width mismatch %d %s %d", a.w, op, b.w)})
	}
	sel := func(s, u string) string {
		if signed {
			return s
		}
		return u
	}
	switch op {
	case token.ADD:
		return mkInt(kx, ts.Bin("bvadd", a, b))
	case token.SUB:
		return mkInt(kx, ts.Bin("bvsub", a, b))
	case token.MUL:
		return mkInt(kx, ts.Bin("bvmul", a, b))
	case token.QUO, token.REM:
		if i.path.decideBool(ts.Eq(b, ts.Const(0, w))) {
			panic(targetPanic{i.runtimeErr("integer divide by zero")})
		}
		if op == token.QUO {
			return mkInt(kx, ts.Bin(sel("bvsdiv", "bvudiv"), a, b))
		}
		return mkInt(kx, ts.Bin(sel("bvsrem", "bvurem"), a, b))
	case token.AND:
		return mkInt(kx, ts.Bin("bvand", a, b))
	case token.OR:
		return mkInt(kx, ts.Bin("bvor", a, b))
	case token.XOR:
		return mkInt(kx, ts.Bin("bvxor", a, b))
	case token.AND_NOT:
		return mkInt(kx, ts.Bin("bvand", a, ts.mk("bvnot", w, 0, 0, b)))
	case token.EQL:
		return mkBool(ts.Eq(a, b))
	case token.NEQ:
		return mkBool(ts.Not(ts.Eq(a, b)))
	case token.LSS:
		return mkBool(ts.Bin(sel("bvslt", "bvult"), a, b))
	case token.LEQ:
		return mkBool(ts.Bin(sel("bvsle", "bvule"), a, b))
	case token.GTR:
		return mkBool(ts.Bin(sel("bvslt", "bvult"), b, a))
	case token.GEQ:
		return mkBool(ts.Bin(sel("bvsle", "bvule"), b, a))
	}
	panic(engineError{fmt.Sprintf("symBinop: op %s on %T", op, x)})
}

func isBoolVal(x value) bool {
	_, ok := x.(bool)
	return ok
}

func isStrVal(x value) bool {
	switch x.(type) {
	case string, sstr:
		return true
	}
	return false
}

// ---- strings ------------------------------------------------------------------------------

func toSstr(x value) sstr {
	switch x := x.(type) {
	case sstr:
		return x
	case string:
		out := make(sstr, len(x))
		for k := 0; k < len(x); k++ {
			out[k] = x[k]
		}
		return out
	}
	panic(engineError{fmt.Sprintf("toSstr: %T", x)})
}

// mkStr normalises a byte sequence to a Go string when all bytes are concrete.
func mkStr(elems []value) value {
	for _, e := range elems {
		if _, ok := e.(uint8); !ok {
			return sstr(elems)
		}
	}
	b := make([]byte, len(elems))
	for k, e := range elems {
		b[k] = e.(uint8)
	}
	return string(b)
}

func strLen(x value) int {
	switch x := x.(type) {
	case string:
		return len(x)
	case sstr:
		return len(x)
	}
	panic(engineError{fmt.Sprintf("strLen: %T", x)})
}

func sstrDebug(s sstr) string {
	var b strings.Builder
	b.WriteString("s\"")
	for _, e := range s {
		if c, ok := e.(uint8); ok {
			if c >= 0x20 && c < 0x7f {
				b.WriteByte(c)
			} else {
				fmt.Fprintf(&b, "\\x%02x", c)
			}
		} else {
			fmt.Fprintf(&b, "{%s}", e.(symv).t)
		}
	}
	b.WriteString("\"")
	return b.String()
}

// strEq returns the (possibly symbolic) equality of two strings.
func (i *interpreter) strEq(x, y value) value {
	if xs, ok := x.(string); ok {
		if ys, ok := y.(string); ok {
			return xs == ys
		}
	}
	a, b := toSstr(x), toSstr(y)
	if len(a) != len(b) {
		return false
	}
	ts := i.ts()
	var cs []*Term
	for k := range a {
		ca, oka := a[k].(uint8)
		cb, okb := b[k].(uint8)
		if oka && okb {
			if ca != cb {
				return false
			}
			continue
		}
		cs = append(cs, ts.Eq(i.termOf(a[k]), i.termOf(b[k])))
	}
	return mkBool(ts.And(cs...))
}

// strLess returns x < y (lexicographic, bytewise) as a possibly symbolic boolean.
func (i *interpreter) strLess(x, y value, orEq bool) value {
	a, b := toSstr(x), toSstr(y)
	ts := i.ts()
	n := len(a)
	if len(b) < n {
		n = len(b)
	}
	// result at the end of the common prefix
	var res *Term
	if orEq {
		res = ts.Bool(len(a) <= len(b))
	} else {
		res = ts.Bool(len(a) < len(b))
	}
	for k := n - 1; k >= 0; k-- {
		ta, tb := i.termOf(a[k]), i.termOf(b[k])
		res = ts.Ite(ts.Eq(ta, tb), res, ts.Bin("bvult", ta, tb))
	}
	return mkBool(res)
}

func (i *interpreter) strBinop(op token.Token, x, y value) value {
	ts := i.ts()
	switch op {
	case token.ADD:
		a, b := toSstr(x), toSstr(y)
		out := make([]value, 0, len(a)+len(b))
		out = append(out, a...)
		out = append(out, b...)
		return mkStr(out)
	case token.EQL:
		return i.strEq(x, y)
	case token.NEQ:
		return i.notV(i.strEq(x, y))
	case token.LSS:
		return i.strLess(x, y, false)
	case token.LEQ:
		return i.strLess(x, y, true)
	case token.GTR:
		return i.strLess(y, x, false)
	case token.GEQ:
		return i.strLess(y, x, true)
	}
	_ = ts
	panic(engineError{fmt.Sprintf("strBinop: op %s", op)})
}

func (i *interpreter) notV(v value) value {
	switch v := v.(type) {
	case bool:
		return !v
	case symb:
		return mkBool(i.ts().Not(v.t))
	}
	panic(engineError{fmt.Sprintf("notV: %T", v)})
}

func (i *interpreter) andV(a, b value) value {
	if ab, ok := a.(bool); ok {
		if !ab {
			return false
		}
		return b
	}
	if bb, ok := b.(bool); ok {
		if !bb {
			return false
		}
		return a
	}
	return mkBool(i.ts().And(a.(symb).t, b.(symb).t))
}

// strIndex returns s[idx] for a possibly symbolic string and index.
func (i *interpreter) strIndex(s value, idx value) value {
	n := strLen(s)
	if sv, ok := idx.(symv); ok {
		ts := i.ts()
		w, signed := kindWidth(sv.k)
		oob := ts.Not(ts.Bin("bvult", ts.Resize(sv.t, 64, signed), ts.Const(uint64(n), 64)))
		if i.path.decideBool(oob) {
			panic(targetPanic{i.runtimeErr("index out of range")})
		}
		ss := toSstr(s)
		// ite chain over positions
		allc := true
		vals := make([]uint64, n)
		for k, e := range ss {
			if c, ok := e.(uint8); ok {
				vals[k] = uint64(c)
			} else {
				allc = false
			}
		}
		if allc {
			return mkInt(types.Uint8, ts.Table(vals, 8, sv.t, 0))
		}
		res := ts.Const(0, 8)
		for k := n - 1; k >= 0; k-- {
			res = ts.Ite(ts.Eq(sv.t, ts.Const(uint64(k), w)), i.termOf(ss[k]), res)
		}
		return mkInt(types.Uint8, res)
	}
	k := asInt64(idx)
	if k < 0 || k >= int64(n) {
		panic(targetPanic{i.runtimeErr(fmt.Sprintf("index out of range [%d] with length %d", k, n))})
	}
	switch s := s.(type) {
	case string:
		return s[k]
	case sstr:
		return s[k]
	}
	panic(engineError{"strIndex"})
}

// encodeRune converts a (possibly symbolic) integer to its UTF-8 string, as string(rune) does.
func (i *interpreter) encodeRune(x value) value {
	sv, ok := x.(symv)
	if !ok {
		r := asInt64(x)
		if r < 0 || r > utf8.MaxRune {
			return string(utf8.RuneError)
		}
		return string(rune(r))
	}
	ts := i.ts()
	w, signed := kindWidth(sv.k)
	r := ts.Resize(sv.t, 32, signed)
	_ = w
	lt := func(c uint64) *Term { return ts.Bin("bvult", r, ts.Const(c, 32)) }
	b8 := func(t *Term) value { return mkInt(types.Uint8, ts.Extract(7, 0, t)) }
	shr := func(n uint64) *Term { return ts.Bin("bvlshr", r, ts.Const(n, 32)) }
	or := func(t *Term, c uint64) *Term { return ts.Bin("bvor", t, ts.Const(c, 32)) }
	and := func(t *Term, c uint64) *Term { return ts.Bin("bvand", t, ts.Const(c, 32)) }
	p := i.path
	switch {
	case p.decideBool(lt(0x80)):
		return mkStr([]value{b8(r)})
	case p.decideBool(lt(0x800)):
		return mkStr([]value{b8(or(shr(6), 0xC0)), b8(or(and(r, 0x3F), 0x80))})
	case p.decideBool(ts.Or(ts.And(ts.Not(lt(0xD800)), lt(0xE000)), ts.Not(lt(0x110000)))):
		return string(utf8.RuneError)
	case p.decideBool(lt(0x10000)):
		return mkStr([]value{b8(or(shr(12), 0xE0)), b8(or(and(shr(6), 0x3F), 0x80)), b8(or(and(r, 0x3F), 0x80))})
	default:
		return mkStr([]value{b8(or(shr(18), 0xF0)), b8(or(and(shr(12), 0x3F), 0x80)), b8(or(and(shr(6), 0x3F), 0x80)), b8(or(and(r, 0x3F), 0x80))})
	}
}

// symConv converts between integer kinds for symbolic values.
func (i *interpreter) symConv(dst types.BasicKind, src value) value {
	sv := src.(symv)
	ws, signed := kindWidth(sv.k)
	wd, _ := kindWidth(dst)
	if wd == 0 {
		// to float etc.: concretise
		panic(engineError{fmt.Sprintf("symConv: unsupported destination kind %v", dst)})
	}
	_ = ws
	return mkInt(dst, i.ts().Resize(sv.t, wd, signed))
}

// eqv is equality on interpreter values that may contain symbolic parts.
func (i *interpreter) eqv(t types.Type, x, y value) value {
	switch x := x.(type) {
	case symv, symb:
		return i.symBinop(token.EQL, t, x, y)
	case sstr:
		return i.strEq(x, y)
	case string:
		if _, ok := y.(sstr); ok {
			return i.strEq(x, y)
		}
		return x == y.(string)
	case structure:
		y := y.(structure)
		tStruct := t.Underlying().(*types.Struct)
		var res value = true
		for k, n := 0, tStruct.NumFields(); k < n; k++ {
			f := tStruct.Field(k)
			if f.Name() == "_" {
				continue
			}
			res = i.andV(res, i.eqv(f.Type(), x[k], y[k]))
			if b, ok := res.(bool); ok && !b {
				return false
			}
		}
		return res
	case array:
		y := y.(array)
		tElt := t.Underlying().(*types.Array).Elem()
		var res value = true
		for k := range x {
			res = i.andV(res, i.eqv(tElt, x[k], y[k]))
			if b, ok := res.(bool); ok && !b {
				return false
			}
		}
		return res
	case iface:
		y := y.(iface)
		if !sameType(x.t, y.t) {
			return false
		}
		if x.t == nil {
			return true
		}
		return i.eqv(x.t, x.v, y.v)
	}
	if isSym(y) {
		return i.symBinop(token.EQL, t, x, y)
	}
	return equalsConcrete(t, x, y)
}
