// Package sym is the harness API of the gosym symbolic executor.
//
// Under the engine every function here is intercepted (the bodies below never run): Byte,
// String, Int, Bool return symbolic values, Assert/Assume talk to the SMT solver.
// Compiled natively the bodies implement *concrete playback*: values come from a model file
// (env GOSYM_MODEL, JSON {"vars":{name:uint64},"params":{k:v}}), so that a solver model can be
// replayed against the real build with the identical harness.
package sym

import (
	"encoding/json"
	"fmt"
	"os"
	"runtime"
	"sort"
	"strconv"
	"sync"
	"time"
)

type modelFile struct {
	Vars   map[string]uint64 `json:"vars"`
	Params map[string]string `json:"params"`
}

var (
	once  sync.Once
	model modelFile
	// Violations collected during native playback.
	Violations []string
	observed   = map[string]string{}
	reached    = map[string]bool{}
)

func load() {
	once.Do(func() {
		model.Vars = map[string]uint64{}
		model.Params = map[string]string{}
		p := os.Getenv("GOSYM_MODEL")
		if p == "" {
			return
		}
		data, err := os.ReadFile(p)
		if err != nil {
			fmt.Println("GOSYM-ERROR cannot read model:", err)
			os.Exit(5)
		}
		if err := json.Unmarshal(data, &model); err != nil {
			fmt.Println("GOSYM-ERROR cannot parse model:", err)
			os.Exit(5)
		}
		if model.Vars == nil {
			model.Vars = map[string]uint64{}
		}
		if model.Params == nil {
			model.Params = map[string]string{}
		}
	})
}

// SetModel installs a model programmatically (native playback from a Go test).
func SetModel(vars map[string]uint64, params map[string]string) {
	load()
	model.Vars = vars
	model.Params = params
	if model.Vars == nil {
		model.Vars = map[string]uint64{}
	}
	if model.Params == nil {
		model.Params = map[string]string{}
	}
	Violations = nil
	observed = map[string]string{}
	reached = map[string]bool{}
}

// Symbolic reports whether the harness runs under the symbolic executor.
func Symbolic() bool { return false }

// Byte returns an unconstrained byte.
func Byte(name string) byte { load(); return byte(model.Vars[name]) }

// Bytes returns n unconstrained bytes named name[0..n-1].
func Bytes(name string, n int) []byte {
	load()
	out := make([]byte, n)
	for i := range out {
		out[i] = byte(model.Vars[name+"["+strconv.Itoa(i)+"]"])
	}
	return out
}

// String returns a string of n unconstrained bytes.
func String(name string, n int) string { return string(Bytes(name, n)) }

// Int returns an integer in [lo,hi].
func Int(name string, lo, hi int) int {
	load()
	v := int(int64(model.Vars[name]))
	Assume(v >= lo && v <= hi)
	return v
}

// Bool returns an unconstrained boolean.
func Bool(name string) bool { load(); return model.Vars[name]&1 == 1 }

// Choice returns a value in [0,n); under the engine each value is a separate path.
func Choice(name string, n int) int {
	load()
	v := int(model.Vars["#"+name])
	if v < 0 || v >= n {
		v = 0
	}
	return v
}

// AssumeFailed is the panic value raised natively when a model violates an assumption.
type AssumeFailed struct{ Label string }

// Assume restricts the inputs considered; a model that violates it does not replay.
func Assume(b bool) {
	if !b {
		panic(AssumeFailed{})
	}
}

// Assert states the property; id names the assertion (and is the violation signature).
func Assert(b bool, id string) {
	reached["assert:"+id] = true
	if !b {
		Violations = append(Violations, id)
		fmt.Println("GOSYM-VIOLATION " + id)
	}
}

// Violation reports an unconditional violation with a computed signature.
func Violation(id, msg string) {
	Violations = append(Violations, id)
	fmt.Println("GOSYM-VIOLATION " + id + " " + msg)
}

// Reach marks a program point of the harness as reached (vacuity guard).
func Reach(label string) { reached[label] = true }

// Observe records a value in the path record.
func Observe(key string, v any) {
	switch x := v.(type) {
	case string:
		observed[key] = strconv.Quote(x)
	case nil:
		observed[key] = strconv.Quote("<nil>")
	default:
		observed[key] = fmt.Sprintf("%v", x)
	}
}

// ParamInt reads a concrete job parameter.
func ParamInt(name string, def int) int {
	load()
	if s, ok := model.Params[name]; ok {
		n, err := strconv.Atoi(s)
		if err == nil {
			return n
		}
	}
	return def
}

// ParamStr reads a concrete job parameter.
func ParamStr(name, def string) string {
	load()
	if s, ok := model.Params[name]; ok {
		return s
	}
	return def
}

// Concrete forces a concrete value (the engine forks over the feasible values).
func Concrete(x int) int { return x }

// Cut ends the path as outside the claim.
func Cut(label string) {
	if label == "" {
		label = "cut"
	}
	panic(AssumeFailed{label})
}

// Calls and CallArg expose calls recorded by engine observers; natively nothing is recorded.
func Calls(fn string) int { return 0 }

// CallArg returns a component of an observed call (engine only).
func CallArg(fn string, k int, path ...int) any { return nil }

var goroutineBaseline int

// Baseline records the number of goroutines before the code under test starts any (native
// playback; under the engine the scheduler knows its goroutines and this does nothing).
func Baseline() { goroutineBaseline = runtime.NumGoroutine() }

// Leaked returns the number of goroutines started by the code under test that have not
// finished: exactly under the engine, by comparison with Baseline natively.
func Leaked() int {
	n := runtime.NumGoroutine() - goroutineBaseline
	if n < 0 {
		return 0
	}
	return n
}

// Snapshot returns what the current native playback recorded.
func Snapshot() (violations []string, obs map[string]string, reach []string) {
	obs = map[string]string{}
	for k, v := range observed {
		obs[k] = v
	}
	for k := range reached {
		reach = append(reach, k)
	}
	sort.Strings(reach)
	return append([]string(nil), Violations...), obs, reach
}

// Opaque reports whether s contains text the engine could not compute exactly (a placeholder
// standing for formatted symbolic data). Natively nothing is opaque.
func Opaque(s string) bool { return false }

// Prune switches on or off the engine's "stop-at" cuts registered by the check (paths end
// normally when a listed function is entered). Natively it does nothing.
func Prune(on bool) {}

// And, Or are non-short-circuit boolean connectives: under the engine they build one formula
// instead of forking the path.
func And(a, b bool) bool { return a && b }

// Or is the non-forking disjunction.
func Or(a, b bool) bool { return a || b }

// Quiesce lets all other goroutines run until none is runnable (engine); natively it sleeps
// briefly so that goroutines about to exit can do so.
func Quiesce() {
	for i := 0; i < 30; i++ {
		time.Sleep(10 * time.Millisecond)
		if runtime.NumGoroutine() <= goroutineBaseline {
			return
		}
	}
}

// ExploreSchedules switches the exploration of goroutine schedules on or off inside a job that
// was started with schedule exploration (off = one fixed run-until-block schedule). Natively
// the Go scheduler decides.
func ExploreSchedules(on bool) {}

// Stdout returns what the code under test printed to the process's standard output through
// fmt.Print/Printf/Println (engine: captured by the fmt intrinsic). Natively it is not captured.
func Stdout() string { return "" }
