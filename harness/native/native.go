// Package native is the concrete-playback runner used to replay solver models against the
// real build: it runs registered harness functions natively (real goroutines, real stdlib)
// under a watchdog and reports violations, observations, panics and hangs as JSON lines.
package native

import (
	"encoding/json"
	"fmt"
	"os"
	"runtime/debug"
	"time"

	"github.com/FollowTheProcess/spok/zzverif/sym"
)

// Item is one playback request.
type Item struct {
	Func   string            `json:"func"`
	Vars   map[string]uint64 `json:"vars"`
	Params map[string]string `json:"params"`
}

// Result is the outcome of one playback.
type Result struct {
	Index      int               `json:"index"`
	Violations []string          `json:"violations"`
	Observed   map[string]string `json:"observed"`
	Reached    []string          `json:"reached"`
	Panic      string            `json:"panic,omitempty"`
	Hang       bool              `json:"hang,omitempty"`
	AssumeFail bool              `json:"assume_failed,omitempty"`
	CutLabel   string            `json:"cut,omitempty"` // deliberate sym.Cut (e.g. not replayable natively)
}

// Run plays back the batch named by env GOSYM_BATCH and writes results to GOSYM_OUT.
func Run(harnesses map[string]func()) error {
	data, err := os.ReadFile(os.Getenv("GOSYM_BATCH"))
	if err != nil {
		return err
	}
	var items []Item
	if err := json.Unmarshal(data, &items); err != nil {
		return err
	}
	out, err := os.Create(os.Getenv("GOSYM_OUT"))
	if err != nil {
		return err
	}
	defer out.Close()
	enc := json.NewEncoder(out)
	for k, it := range items {
		f, ok := harnesses[it.Func]
		if !ok {
			return fmt.Errorf("no harness %q", it.Func)
		}
		res := Result{Index: k}
		done := make(chan struct{})
		sym.SetModel(it.Vars, it.Params)
		go func() {
			defer close(done)
			defer func() {
				if r := recover(); r != nil {
					if af, ok := r.(sym.AssumeFailed); ok {
						res.AssumeFail = true
						res.CutLabel = af.Label
						return
					}
					res.Panic = fmt.Sprintf("%v\n%s", r, debug.Stack())
				}
			}()
			f()
		}()
		select {
		case <-done:
		case <-time.After(5 * time.Second):
			res.Hang = true
		}
		if !res.Hang {
			res.Violations, res.Observed, res.Reached = sym.Snapshot()
		}
		if err := enc.Encode(res); err != nil {
			return err
		}
		if res.Hang {
			// the hung goroutine keeps running; later items would share its CPU, so stop here
			// and let the caller re-submit the remainder
			break
		}
	}
	return nil
}
