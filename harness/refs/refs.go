// Package refs holds the harnesses' own reference functions: what a spokfile shape declares and
// which files a glob pattern matches. They exist so that an expectation is never read from the
// code under test (History once took a task's inputs from sf.Tasks / sf.Globs and inherited a
// seeded defect that way, DESIGN.md 9.5). Pure string functions over concrete text.
package refs

import "strings"

// Decl is what one task of a harness shape declares.
type Decl struct {
	Name     string
	Files    []string // quoted dependencies without '*'
	Globs    []string // quoted dependencies with '*'
	TaskDeps []string // bare identifiers
	Commands int      // command lines of the body
}

// Declared reads the task declarations of a harness shape. Shapes are written by the harness in
// one fixed layout:  task NAME(dep, dep) [-> outputs] {\n\tcmd\n...}\n   or   task NAME() {}
func Declared(text string) map[string]Decl {
	out := map[string]Decl{}
	lines := strings.Split(text, "\n")
	for i := 0; i < len(lines); i++ {
		l := lines[i]
		if !strings.HasPrefix(l, "task ") {
			continue
		}
		open := strings.Index(l, "(")
		close := strings.Index(l, ")")
		if open < 0 || close < open {
			panic("refs: cannot read the task line " + l)
		}
		d := Decl{Name: strings.TrimSpace(l[len("task "):open])}
		for _, a := range strings.Split(l[open+1:close], ",") {
			a = strings.TrimSpace(a)
			switch {
			case a == "":
			case strings.HasPrefix(a, "\""):
				s := strings.Trim(a, "\"")
				if strings.Contains(s, "*") {
					d.Globs = append(d.Globs, s)
				} else {
					d.Files = append(d.Files, s)
				}
			default:
				d.TaskDeps = append(d.TaskDeps, a)
			}
		}
		if !strings.HasSuffix(l, "{}") {
			for j := i + 1; j < len(lines) && lines[j] != "}"; j++ {
				if strings.TrimSpace(lines[j]) != "" {
					d.Commands++
				}
			}
		}
		out[d.Name] = d
	}
	return out
}

// GlobMatch: '/'-separated segments, "**" for any number of directories, '*' for any run of
// characters inside a segment. (The patterns of the history shapes; C05 has the full matcher.)
func GlobMatch(pattern, rel string) bool {
	return segs(strings.Split(pattern, "/"), strings.Split(rel, "/"))
}

func segs(pat, s []string) bool {
	if len(pat) == 0 {
		return len(s) == 0
	}
	if pat[0] == "**" {
		for k := 0; k <= len(s); k++ {
			if segs(pat[1:], s[k:]) {
				return true
			}
		}
		return false
	}
	return len(s) > 0 && seg(pat[0], s[0]) && segs(pat[1:], s[1:])
}

func seg(pat, s string) bool {
	if pat == "" {
		return s == ""
	}
	if pat[0] == '*' {
		for k := 0; k <= len(s); k++ {
			if seg(pat[1:], s[k:]) {
				return true
			}
		}
		return false
	}
	return s != "" && pat[0] == s[0] && seg(pat[1:], s[1:])
}

// Inputs lists, sorted, the absolute paths task t must hash: its literal file dependencies and
// the candidate files (relative to root) that exist and match one of its glob patterns.
func Inputs(d Decl, root string, candidates []string, exists func(abs string) bool) []string {
	var paths []string
	seen := map[string]bool{}
	for _, g := range d.Globs {
		for _, f := range candidates {
			abs := root + "/" + f
			if GlobMatch(g, f) && exists(abs) && !seen[abs] {
				seen[abs] = true
				paths = append(paths, abs)
			}
		}
	}
	for _, f := range d.Files {
		paths = append(paths, root+"/"+f)
	}
	for i := 1; i < len(paths); i++ {
		for j := i; j > 0 && paths[j] < paths[j-1]; j-- {
			paths[j], paths[j-1] = paths[j-1], paths[j]
		}
	}
	return paths
}
