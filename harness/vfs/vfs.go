// Package vfs is the in-memory file system model that replaces package os in harnesses that
// need one. It is ordinary Go code executed by the symbolic engine; the engine redirects the
// os functions spok uses to the functions below (see the redirect table in the check driver).
//
// Paths are absolute, cleaned strings. Every mutating call is appended to Log, which the
// frame-condition assertions of the harnesses read.
package vfs

import (
	"io"
	"io/fs"
	"os"
	"path/filepath"
	"sort"
	"strings"
	"time"
)

// Entry is a file or directory.
type Entry struct {
	Dir      bool
	Content  string
	FailRead bool // reading the file fails after it was opened (it vanished, I/O error)
}

// Effect is one mutating call.
type Effect struct {
	Op   string // write mkdir remove append create
	Path string
}

var (
	Files   = map[string]*Entry{}
	Log     []Effect
	Cwd     = "/"
	Home    = "/home"
	Env     []string
	Unknown []string // calls that are not modelled

	// WriteHook, when set, is called at the crash points of WriteFile: stage 0 before the
	// file is touched, 1 after truncation (empty file), 2 after the complete write.
	// Returning a non-negative n at stage 1 leaves a torn file of the first n bytes and
	// crashes (the hook does not return normally in that case; it ends the step).
	WriteHook func(path string, stage int, data string)

	handles = map[*os.File]*handle{}
)

type handle struct {
	path   string
	append bool
	off    int
}

// Reset empties the file system.
func Reset() {
	Files = map[string]*Entry{"/": {Dir: true}}
	Log = nil
	Cwd = "/"
	Home = "/home"
	Env = nil
	Unknown = nil
	WriteHook = nil
	handles = map[*os.File]*handle{}
}

func abs(name string) string {
	if !strings.HasPrefix(name, "/") {
		name = Cwd + "/" + name
	}
	return filepath.Clean(name)
}

func notExist(op, path string) error {
	return &fs.PathError{Op: op, Path: path, Err: fs.ErrNotExist}
}

// AddDir creates a directory and its parents (test set-up, not logged).
func AddDir(path string) {
	path = filepath.Clean(path)
	for p := path; ; p = filepath.Dir(p) {
		if e, ok := Files[p]; !ok || !e.Dir {
			Files[p] = &Entry{Dir: true}
		}
		if p == "/" {
			break
		}
	}
}

// AddFile creates a file (test set-up, not logged).
func AddFile(path, content string) {
	path = filepath.Clean(path)
	AddDir(filepath.Dir(path))
	Files[path] = &Entry{Content: content}
}

// Remove deletes path and everything below it (test set-up, not logged).
func Remove(path string) {
	path = filepath.Clean(path)
	for p := range Files {
		if p == path || strings.HasPrefix(p, path+"/") {
			delete(Files, p)
		}
	}
}

// Exists reports whether path exists.
func Exists(path string) bool {
	_, ok := Files[filepath.Clean(path)]
	return ok
}

// ---- file info -----------------------------------------------------------------------------------

type info struct {
	name string
	dir  bool
	size int64
}

func (i info) Name() string { return i.name }
func (i info) Size() int64  { return i.size }
func (i info) Mode() fs.FileMode {
	if i.dir {
		return fs.ModeDir | 0o755
	}
	return 0o644
}
func (i info) ModTime() time.Time         { return time.Time{} }
func (i info) IsDir() bool                { return i.dir }
func (i info) Sys() any                   { return nil }
func (i info) Type() fs.FileMode          { return i.Mode().Type() }
func (i info) Info() (fs.FileInfo, error) { return i, nil }

func infoOf(path string, e *Entry) info {
	return info{name: filepath.Base(path), dir: e.Dir, size: int64(len(e.Content))}
}

// ---- package os ----------------------------------------------------------------------------------

func Stat(name string) (os.FileInfo, error) {
	p := abs(name)
	e, ok := Files[p]
	if !ok {
		return nil, notExist("stat", name)
	}
	return infoOf(p, e), nil
}

func ReadFile(name string) ([]byte, error) {
	p := abs(name)
	e, ok := Files[p]
	if !ok {
		return nil, notExist("open", name)
	}
	if e.Dir {
		return nil, &fs.PathError{Op: "read", Path: name, Err: fs.ErrInvalid}
	}
	return []byte(e.Content), nil
}

func WriteFile(name string, data []byte, perm os.FileMode) error {
	p := abs(name)
	if e, ok := Files[filepath.Dir(p)]; !ok || !e.Dir {
		return notExist("open", name)
	}
	if e, ok := Files[p]; ok && e.Dir {
		return &fs.PathError{Op: "open", Path: name, Err: fs.ErrInvalid}
	}
	if WriteHook != nil {
		WriteHook(p, 0, string(data))
	}
	Log = append(Log, Effect{"write", p})
	Files[p] = &Entry{}
	if WriteHook != nil {
		WriteHook(p, 1, string(data))
	}
	Files[p] = &Entry{Content: string(data)}
	if WriteHook != nil {
		WriteHook(p, 2, string(data))
	}
	return nil
}

func MkdirAll(path string, perm os.FileMode) error {
	p := abs(path)
	var missing []string
	for q := p; ; q = filepath.Dir(q) {
		e, ok := Files[q]
		if ok && !e.Dir {
			return &fs.PathError{Op: "mkdir", Path: path, Err: fs.ErrInvalid}
		}
		if ok {
			break
		}
		missing = append(missing, q)
		if q == "/" {
			break
		}
	}
	for i := len(missing) - 1; i >= 0; i-- {
		Files[missing[i]] = &Entry{Dir: true}
		Log = append(Log, Effect{"mkdir", missing[i]})
	}
	return nil
}

func RemoveAll(path string) error {
	if path == "" {
		return nil
	}
	p := abs(path)
	Log = append(Log, Effect{"remove", p})
	for q := range Files {
		if q == p || strings.HasPrefix(q, p+"/") || p == "/" {
			delete(Files, q)
		}
	}
	if p == "/" {
		Files["/"] = &Entry{Dir: true}
	}
	return nil
}

func children(dir string) []string {
	var names []string
	prefix := dir + "/"
	if dir == "/" {
		prefix = "/"
	}
	for q := range Files {
		if q != dir && strings.HasPrefix(q, prefix) && !strings.Contains(q[len(prefix):], "/") {
			names = append(names, q[len(prefix):])
		}
	}
	sort.Strings(names)
	return names
}

func ReadDir(name string) ([]os.DirEntry, error) {
	p := abs(name)
	e, ok := Files[p]
	if !ok {
		return nil, notExist("open", name)
	}
	if !e.Dir {
		return nil, &fs.PathError{Op: "readdir", Path: name, Err: fs.ErrInvalid}
	}
	var out []os.DirEntry
	for _, n := range children(p) {
		q := filepath.Join(p, n)
		out = append(out, infoOf(q, Files[q]))
	}
	return out, nil
}

func Getwd() (string, error)       { return Cwd, nil }
func UserHomeDir() (string, error) { return Home, nil }
func Environ() []string            { return append([]string(nil), Env...) }

func Getenv(key string) string {
	v := ""
	for _, kv := range Env {
		if strings.HasPrefix(kv, key+"=") {
			v = kv[len(key)+1:]
		}
	}
	return v
}

// ---- *os.File ------------------------------------------------------------------------------------

func Open(name string) (*os.File, error) {
	p := abs(name)
	if _, ok := Files[p]; !ok {
		return nil, notExist("open", name)
	}
	f := new(os.File)
	handles[f] = &handle{path: p}
	return f, nil
}

func OpenFile(name string, flag int, perm os.FileMode) (*os.File, error) {
	p := abs(name)
	e, ok := Files[p]
	if !ok {
		if flag&os.O_CREATE == 0 {
			return nil, notExist("open", name)
		}
		if d, ok := Files[filepath.Dir(p)]; !ok || !d.Dir {
			return nil, notExist("open", name)
		}
		Files[p] = &Entry{}
		Log = append(Log, Effect{"create", p})
	} else if flag&os.O_TRUNC != 0 && !e.Dir {
		e.Content = ""
		Log = append(Log, Effect{"write", p})
	}
	f := new(os.File)
	handles[f] = &handle{path: p, append: flag&os.O_APPEND != 0}
	return f, nil
}

func FileStat(f *os.File) (os.FileInfo, error) {
	h, ok := handles[f]
	if f == nil || !ok {
		return nil, fs.ErrInvalid
	}
	e, ok := Files[h.path]
	if !ok {
		return nil, notExist("stat", h.path)
	}
	return infoOf(h.path, e), nil
}

func FileClose(f *os.File) error {
	if f == nil {
		return fs.ErrInvalid
	}
	delete(handles, f)
	return nil
}

// FileWriteTo is (*os.File).WriteTo as used by io.Copy.
func FileWriteTo(f *os.File, w io.Writer) (int64, error) {
	h, ok := handles[f]
	if f == nil || !ok {
		return 0, fs.ErrInvalid
	}
	e, ok := Files[h.path]
	if !ok {
		return 0, notExist("read", h.path)
	}
	if e.Dir {
		return 0, &fs.PathError{Op: "read", Path: h.path, Err: fs.ErrInvalid}
	}
	if e.FailRead {
		return 0, &fs.PathError{Op: "read", Path: h.path, Err: fs.ErrClosed}
	}
	rest := e.Content[h.off:]
	h.off = len(e.Content)
	n, err := w.Write([]byte(rest))
	return int64(n), err
}

func FileRead(f *os.File, b []byte) (int, error) {
	h, ok := handles[f]
	if f == nil || !ok {
		return 0, fs.ErrInvalid
	}
	e, ok := Files[h.path]
	if !ok {
		return 0, notExist("read", h.path)
	}
	if e.Dir {
		return 0, &fs.PathError{Op: "read", Path: h.path, Err: fs.ErrInvalid}
	}
	if h.off >= len(e.Content) {
		return 0, io.EOF
	}
	n := copy(b, e.Content[h.off:])
	h.off += n
	return n, nil
}

func FileWrite(f *os.File, b []byte) (int, error) {
	h, ok := handles[f]
	if f == nil || !ok {
		return 0, fs.ErrInvalid
	}
	e, ok := Files[h.path]
	if !ok {
		return 0, notExist("write", h.path)
	}
	if h.append {
		Log = append(Log, Effect{"append", h.path})
		e.Content += string(b)
	} else {
		Log = append(Log, Effect{"write", h.path})
		e.Content = e.Content[:h.off] + string(b)
		h.off += len(b)
	}
	return len(b), nil
}

func FileWriteString(f *os.File, s string) (int, error) { return FileWrite(f, []byte(s)) }

// ---- os.DirFS ------------------------------------------------------------------------------------

type dirFile struct {
	path string
	off  int
}

func (d *dirFile) Stat() (fs.FileInfo, error) {
	e, ok := Files[d.path]
	if !ok {
		return nil, notExist("stat", d.path)
	}
	return infoOf(d.path, e), nil
}
func (d *dirFile) Read(b []byte) (int, error) {
	e, ok := Files[d.path]
	if !ok {
		return 0, notExist("read", d.path)
	}
	if d.off >= len(e.Content) {
		return 0, io.EOF
	}
	n := copy(b, e.Content[d.off:])
	d.off += n
	return n, nil
}
func (d *dirFile) Close() error { return nil }
func (d *dirFile) ReadDir(n int) ([]fs.DirEntry, error) {
	return ReadDir(d.path)
}

func join(dir, name string) string {
	if name == "." {
		return filepath.Clean(dir)
	}
	return filepath.Join(dir, name)
}

func DirFSOpen(dir string, name string) (fs.File, error) {
	if !fs.ValidPath(name) {
		return nil, &fs.PathError{Op: "open", Path: name, Err: fs.ErrInvalid}
	}
	p := join(dir, name)
	if _, ok := Files[p]; !ok {
		return nil, notExist("open", name)
	}
	return &dirFile{path: p}, nil
}

func DirFSStat(dir string, name string) (fs.FileInfo, error) {
	if !fs.ValidPath(name) {
		return nil, &fs.PathError{Op: "stat", Path: name, Err: fs.ErrInvalid}
	}
	p := join(dir, name)
	e, ok := Files[p]
	if !ok {
		return nil, notExist("stat", name)
	}
	return infoOf(p, e), nil
}

func DirFSReadDir(dir string, name string) ([]fs.DirEntry, error) {
	if !fs.ValidPath(name) {
		return nil, &fs.PathError{Op: "readdir", Path: name, Err: fs.ErrInvalid}
	}
	return ReadDir(join(dir, name))
}

func DirFSReadFile(dir string, name string) ([]byte, error) {
	if !fs.ValidPath(name) {
		return nil, &fs.PathError{Op: "readfile", Path: name, Err: fs.ErrInvalid}
	}
	return ReadFile(join(dir, name))
}

// StdStreams gives the process its standard streams: three open files on /dev/stdin, /dev/stdout
// and /dev/stderr of the model (for code that takes os.Stdout as a value, e.g. iostream.OS()).
func StdStreams() (stdin, stdout, stderr *os.File) {
	AddDir("/dev")
	mk := func(p string) *os.File {
		Files[p] = &Entry{}
		f := new(os.File)
		handles[f] = &handle{path: p, append: true}
		return f
	}
	return mk("/dev/stdin"), mk("/dev/stdout"), mk("/dev/stderr")
}

// StdoutText is what has been written to the standard output file of the model so far.
func StdoutText() string {
	if e, ok := Files["/dev/stdout"]; ok {
		return e.Content
	}
	return ""
}
