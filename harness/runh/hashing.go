package runh

import (
	"os"
	"path/filepath"
	"strconv"
	"strings"

	"github.com/FollowTheProcess/spok/hash"
	"github.com/FollowTheProcess/spok/zzverif/stubs"
	"github.com/FollowTheProcess/spok/zzverif/sym"
	"github.com/FollowTheProcess/spok/zzverif/vfs"
)

// hashWorld sets up the pool of paths the hashing harnesses draw their lists from:
// two regular files whose names are prefixes of each other, a nested file, an empty file,
// a directory, a path that does not exist and (engine only) a file whose read fails.
type hashWorld struct {
	base string
	pool []string // absolute paths
	kind []string // file, empty, dir, missing, failing
}

func newHashWorld(contentA, contentAB string, withFaults bool) *hashWorld {
	w := &hashWorld{}
	if sym.Symbolic() {
		vfs.Reset()
		stubs.ResetHash()
		w.base = "/h"
		vfs.AddDir(w.base)
	} else {
		dir, err := os.MkdirTemp("", "gosym-hash-")
		if err != nil {
			panic(err)
		}
		dir, _ = filepath.EvalSymlinks(dir)
		w.base = dir
	}
	add := func(rel, kind, content string) {
		p := w.base + "/" + rel
		switch kind {
		case "file", "empty", "failing":
			if sym.Symbolic() {
				vfs.AddFile(p, content)
				if kind == "failing" {
					vfs.Files[p].FailRead = true
				}
			} else {
				os.MkdirAll(filepath.Dir(p), 0o755)
				os.WriteFile(p, []byte(content), 0o644)
			}
		case "dir":
			if sym.Symbolic() {
				vfs.AddDir(p)
			} else {
				os.MkdirAll(p, 0o755)
			}
		}
		w.pool = append(w.pool, p)
		w.kind = append(w.kind, kind)
	}
	add("a", "file", contentA)
	add("ab", "file", contentAB)
	add("sub/b", "file", "nested")
	add("e", "empty", "")
	add("d", "dir", "")
	if withFaults {
		add("missing", "missing", "")
		if sym.Symbolic() {
			add("failing", "failing", "zz")
		} else {
			// a file that opens and whose read fails (EIO), natively
			w.pool = append(w.pool, "/proc/self/mem")
			w.kind = append(w.kind, "failing")
		}
	}
	return w
}

func (w *hashWorld) cleanup() {
	if !sym.Symbolic() {
		os.RemoveAll(w.base)
	}
}

func (w *hashWorld) pick(name string, n int) (list []string, kinds []string) {
	for k := 0; k < n; k++ {
		i := sym.Choice(name+strconv.Itoa(k), len(w.pool))
		list = append(list, w.pool[i])
		kinds = append(kinds, w.kind[i])
	}
	return
}

func rels(base string, l []string) string {
	var out []string
	for _, p := range l {
		if !strings.HasPrefix(p, base+"/") {
			p = "<outside>"
		}
		out = append(out, strings.TrimPrefix(p, base+"/"))
	}
	return strings.Join(out, ",")
}

// HashClean: hashing any path list returns cleanly (C18). A panic in any goroutine, a deadlock
// and non-termination are verdicts of the engine itself; the harness states the error clause
// and that no goroutine started by Hash is left behind.
func HashClean() {
	n := sym.ParamInt("n", 2)
	w := newHashWorld("x", "y", true)
	defer w.cleanup()
	var list, kinds []string
	if k := sym.ParamInt("taskset", 0); k > 0 {
		// Length sweep: how the list length relates to the worker count (the arithmetic of
		// sharing work out) rather than what the entries are. The worker count is the job's
		// parameter - the native replay runs under `taskset` with as many CPUs - and the list is
		// 0..maxlen copies of the first pool entry, a readable regular file. (A seeded change
		// that gave each worker a contiguous share crashed only for some lengths above the
		// worker count, from 4 workers on: outside every bound this harness had, DESIGN.md 9.5.)
		stubs.CPUs = k
		m := sym.Choice("length", sym.ParamInt("maxlen", 8)+1)
		for i := 0; i < m; i++ {
			list = append(list, w.pool[0])
			kinds = append(kinds, w.kind[0])
		}
		sym.Observe("length", m)
	} else {
		stubs.CPUs = 1 + sym.Choice("cpus", sym.ParamInt("maxcpus", 2))
		list, kinds = w.pick("entry", n)
	}
	sym.Observe("list", strings.Join(kinds, ","))
	sym.Observe("cpus", stubs.CPUs)
	bad := false
	for _, k := range kinds {
		if k == "missing" || k == "failing" {
			bad = true
		}
	}
	sym.Baseline()
	digest, err := hash.New().Hash(list)
	sym.Reach("C18/returned")
	sym.Observe("error", err != nil)
	if bad {
		sym.Assert(err != nil, "C18/digest-although-a-file-could-not-be-read")
		sym.Assert(digest == "", "C18/digest-although-a-file-could-not-be-read")
	} else {
		sym.Assert(err == nil, "C18/error-although-every-entry-is-readable")
		sym.Assert(len(digest) == 64, "C18/malformed-digest")
	}
	sym.Quiesce()
	sym.Assert(sym.Leaked() == 0, "C18/goroutines-left-behind")
}

// HashDet: the digest is a deterministic, change-sensitive function of the file set (C04).
func HashDet() {
	n := sym.ParamInt("n", 2)
	// contents of two files are symbolic so that "same content or not" is the solver's choice
	// calen: the length of file a's content. With 2 bytes against ab's 1, "a"+content_a and
	// "ab"+content_ab can be the same byte string: a digest built from path and content without
	// a boundary between them then misses a rename-with-edit (seeded change C04c, DESIGN.md 9.5).
	ca, cab := sym.String("content_a", sym.ParamInt("calen", 1)), sym.String("content_ab", 1)
	w := newHashWorld(ca, cab, false)
	defer w.cleanup()
	maxcpus := sym.ParamInt("maxcpus", 2)
	list, kinds := w.pick("entry", n)
	sym.Observe("list", rels(w.base, list))

	// ---- A: order, CPU count and schedule independence; directories are ignored
	// Schedules are explored for this first call only; the later calls run under one fixed
	// schedule and serve as the reference every explored schedule is compared with.
	stubs.CPUs = 1 + sym.Choice("cpus1", maxcpus)
	d1, err1 := hash.New().Hash(list)
	sym.ExploreSchedules(false)
	// a permutation of the list without its directories, under another CPU count
	var perm []string
	for k := len(list) - 1; k >= 0; k-- {
		if kinds[k] != "dir" {
			perm = append(perm, list[k])
		}
	}
	partB := sym.ParamInt("partB", 1) == 1
	if partB && n >= 2 && sym.Choice("rotate", 2) == 1 && len(perm) >= 2 {
		perm = append(perm[1:], perm[0])
	}
	stubs.CPUs = 1
	if partB {
		stubs.CPUs = 1 + sym.Choice("cpus2", maxcpus)
	}
	d2, err2 := hash.New().Hash(perm)
	sym.Observe("perm", rels(w.base, perm))
	if err1 != nil || err2 != nil {
		sym.Violation("C04/error-on-readable-files", "")
		return
	}
	sym.Reach("C04/two-digests")
	sym.Assert(d1 == d2, "C04/digest-depends-on-order-cpus-schedule-or-directories")

	if !partB {
		return
	}
	// ---- B: sensitivity. A second file set built from the first by one change.
	change := sym.Choice("change", 4)
	if change == 3 {
		// edit: file "a" gets new content (possibly the same bytes again)
		if _, hasA := indexOf(list, w.pool[0]); !hasA {
			return
		}
		ca2 := sym.String("content_a_edited", 1)
		if sym.Symbolic() {
			vfs.Files[w.pool[0]].Content = ca2
		} else {
			os.WriteFile(w.pool[0], []byte(ca2), 0o644)
		}
		d4, err4 := hash.New().Hash(list)
		if err4 != nil {
			sym.Violation("C04/error-on-readable-files", "")
			return
		}
		sym.Reach("C04/edited")
		// same bytes again: same digest; different bytes: different digest
		if d1 == d4 {
			sym.Assert(ca == ca2, "C04/content-change-not-detected")
		} else {
			sym.Assert(ca != ca2, "C04/digest-changed-although-nothing-changed")
		}
		return
	}
	var other []string
	switch change {
	case 0: // drop the first regular file
		dropped := false
		for k, p := range list {
			if !dropped && kinds[k] != "dir" {
				dropped = true
				continue
			}
			other = append(other, p)
		}
		if !dropped {
			return
		}
	case 1: // add a file that is not in the list
		other = append(other, list...)
		extra := ""
		for k, p := range w.pool {
			if w.kind[k] == "dir" {
				continue
			}
			if _, in := indexOf(list, p); !in {
				extra = p
				break
			}
		}
		if extra == "" {
			return
		}
		other = append(other, extra)
	case 2: // rename: replace file "a" by "ab" when only one of them is listed
		_, hasA := indexOf(list, w.pool[0])
		_, hasAB := indexOf(list, w.pool[1])
		if !hasA || hasAB {
			return
		}
		for _, p := range list {
			if p == w.pool[0] {
				p = w.pool[1]
			}
			other = append(other, p)
		}
	}
	d3, err3 := hash.New().Hash(other)
	if err3 != nil {
		sym.Violation("C04/error-on-readable-files", "")
		return
	}
	sym.Observe("other", rels(w.base, other))
	sym.Reach("C04/changed-set")
	if change == 2 {
		// a rename changes the digest even when the two files have the same content
		sym.Assert(d1 != d3, "C04/rename-not-detected")
		return
	}
	if sameFileSet(list, other, kinds, w) {
		return
	}
	sym.Assert(d1 != d3, "C04/change-not-detected")
}

// sameFileSet reports whether two lists denote the same multiset of regular files (they do not
// after the changes above unless the dropped/added entry was a duplicate).
func sameFileSet(a, b []string, kinds []string, w *hashWorld) bool {
	count := func(l []string) map[string]int {
		m := map[string]int{}
		for _, p := range l {
			isDir := false
			for k, q := range w.pool {
				if q == p && w.kind[k] == "dir" {
					isDir = true
				}
			}
			if !isDir {
				m[p]++
			}
		}
		return m
	}
	ma, mb := count(a), count(b)
	if len(ma) != len(mb) {
		return false
	}
	for p, n := range ma {
		if mb[p] != n {
			return false
		}
	}
	return true
}
