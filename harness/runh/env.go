package runh

import (
	"os"
	"path/filepath"

	"github.com/FollowTheProcess/spok/zzverif/stubs"
	"github.com/FollowTheProcess/spok/zzverif/sym"
	"github.com/FollowTheProcess/spok/zzverif/vfs"
)

// The project directory lives in the engine's vfs when the harness runs symbolically and in
// a real temporary directory when a model is replayed natively (real files, real SHA-256,
// real JSON, real templates).

var root = "/p"

func setupProject(spokfile string) {
	if sym.Symbolic() {
		vfs.Reset()
		stubs.ResetHash()
		root = "/p"
		vfs.Cwd = root
		vfs.AddDir(root)
		vfs.AddFile(root+"/spokfile", spokfile)
		return
	}
	dir, err := os.MkdirTemp("", "gosym-replay-")
	if err != nil {
		panic(err)
	}
	dir, _ = filepath.EvalSymlinks(dir)
	root = dir
	if err := os.WriteFile(filepath.Join(root, "spokfile"), []byte(spokfile), 0o644); err != nil {
		panic(err)
	}
}

func teardownProject() {
	if !sym.Symbolic() && root != "/p" {
		os.RemoveAll(root)
		if tempBase != "" {
			os.RemoveAll(tempBase)
			tempBase = ""
		}
	}
}

var tempBase string

// relocateRoot moves the (still empty) project into a sub-directory with the given name, so that
// the project directory's own path can contain characters that mean something to a glob matcher.
func relocateRoot(name string) {
	if sym.Symbolic() {
		vfs.Remove(root + "/spokfile")
		root = root + "/" + name
		vfs.AddDir(root)
		vfs.Cwd = root
		vfs.AddFile(root+"/spokfile", "")
		return
	}
	os.Remove(filepath.Join(root, "spokfile"))
	tempBase = root
	root = filepath.Join(root, name)
	if err := os.MkdirAll(root, 0o755); err != nil {
		panic(err)
	}
	os.WriteFile(filepath.Join(root, "spokfile"), nil, 0o644)
}

func putFile(rel, content string) {
	if sym.Symbolic() {
		vfs.AddFile(root+"/"+rel, content)
		return
	}
	p := filepath.Join(root, rel)
	os.MkdirAll(filepath.Dir(p), 0o755)
	if err := os.WriteFile(p, []byte(content), 0o644); err != nil {
		panic(err)
	}
}

func delPath(rel string) {
	if sym.Symbolic() {
		vfs.Remove(root + "/" + rel)
		return
	}
	os.RemoveAll(filepath.Join(root, rel))
}

func readContent(abs string) string {
	if sym.Symbolic() {
		if e, ok := vfs.Files[abs]; ok {
			return e.Content
		}
		return ""
	}
	data, _ := os.ReadFile(abs)
	return string(data)
}

func pathExists(abs string) bool {
	if sym.Symbolic() {
		return vfs.Exists(abs)
	}
	_, err := os.Stat(abs)
	return err == nil
}

func cachePath() string { return root + "/.spok/cache.json" }

// cacheSnap is the cache as it is on disk at one moment.
type cacheSnap struct {
	dir, file bool
	content   string
}

func snapshotCache() cacheSnap {
	return cacheSnap{dir: pathExists(root + "/.spok"), file: pathExists(cachePath()), content: readContent(cachePath())}
}

// restoreCache puts the cache back as it was (bypassing the write hooks of the model).
func restoreCache(c cacheSnap) {
	switch {
	case !c.dir:
		delPath(".spok")
	case !c.file:
		delPath(".spok/cache.json")
	case sym.Symbolic():
		if e, ok := vfs.Files[cachePath()]; ok {
			e.Content = c.content
		} else {
			vfs.AddFile(cachePath(), c.content)
		}
	default:
		os.WriteFile(cachePath(), []byte(c.content), 0o644)
	}
}

// writeRaw puts content into an existing file without passing through any write hook.
func writeRaw(abs, content string) {
	if sym.Symbolic() {
		vfs.Files[abs].Content = content
		return
	}
	os.WriteFile(abs, []byte(content), 0o644)
}
