package cache

import "os"

// This file is laid over /repo/cache by the verification harness (it is not part of spok).
//
// VerifWriteHook, when set, is called at the crash points of a write of a file by this package:
// stage 0 before the file is touched, stage 1 when it has been truncated (it is empty), stage 2
// when the write is complete. The native replay build replaces the os.WriteFile call of Dump by
// verifWriteFile (textually, from the current cache.go, at every run); under the engine the same
// three points are the in-memory file system's (vfs.WriteHook) and this variable is unused.
var VerifWriteHook func(path string, stage int, data string)

func verifWriteFile(path string, data []byte, perm os.FileMode) error {
	if VerifWriteHook == nil {
		return os.WriteFile(path, data, perm)
	}
	VerifWriteHook(path, 0, string(data))
	if err := os.WriteFile(path, nil, perm); err != nil { // truncate
		return err
	}
	VerifWriteHook(path, 1, string(data))
	err := os.WriteFile(path, data, perm)
	VerifWriteHook(path, 2, string(data))
	return err
}

var _ = verifWriteFile
