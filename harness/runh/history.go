// Package runh holds the harnesses around file.SpokFile.Run: the cache / run state machine
// (C01, C02, C14, C10), task ordering (C03) and the failing-command clause of C09.
package runh

import (
	"errors"
	"fmt"
	"strconv"
	"strings"

	"github.com/FollowTheProcess/spok/cache"
	"github.com/FollowTheProcess/spok/file"
	"github.com/FollowTheProcess/spok/iostream"
	"github.com/FollowTheProcess/spok/parser"
	"github.com/FollowTheProcess/spok/shell"
	"github.com/FollowTheProcess/spok/zzverif/refs"
	"github.com/FollowTheProcess/spok/zzverif/sym"
	"github.com/FollowTheProcess/spok/zzverif/vfs"
)

type nopLogger struct{}

func (nopLogger) Sync() error                      { return nil }
func (nopLogger) Debug(format string, args ...any) {}

type execRec struct {
	step   int
	task   string
	cmd    string
	status int
}

// world is the harness's ghost state.
type world struct {
	step     int
	executed []execRec
	nExec    int
	// the kill of the current step: at command crash point crashCmd (-1 = none), or at
	// stage crashStage of write number crashWrite of the cache file (-1 = none)
	crashCmd   int
	crashWrite int
	crashStage int
	point      int // command crash points passed in the current step
	writeNo    int // cache-file writes started in the current step
	crashed    bool
	maxFail    int                 // highest status value a command may return
	dying      bool                // the kill has happened; the stand-in panic is unwinding
	atDeath    cacheSnap           // the cache on disk at the moment of the kill
	allowErr   bool                // the runner itself may fail (a command the shell cannot even parse): an error, not a status
	writes     map[string][]string // task -> files its commands may rewrite while they run (dependencies of later tasks)
	murky      map[string]bool     // tasks that rewrote a dependency of their own in the current step
}

type crash struct{}

// crashPoint is a program point around a command at which the process may be killed.
func (w *world) crashPoint() {
	if w.dying {
		return
	}
	if w.crashCmd >= 0 && w.point == w.crashCmd {
		w.die()
	}
	w.point++
}

// die: the process is killed here. A panic stands in for the kill, but unlike a kill a panic
// still runs the deferred functions of the frames it unwinds - and spok's run() defers its cache
// write-back (since 3a41d53) - so what is on disk at this very moment is remembered, and put
// back by invoke once the panic has been caught. Nothing else survives a kill: every invocation
// builds its SpokFile afresh.
func (w *world) die() {
	w.dying = true
	w.crashed = true
	w.atDeath = snapshotCache()
	panic(crash{})
}

type runner struct{ w *world }

var errRunner = errors.New("the shell cannot run this command")

// Run implements shell.Runner: commands are opaque, their status is symbolic.
func (r *runner) Run(cmd string, stream iostream.IOStream, task string, env []string) (shell.Result, error) {
	w := r.w
	w.crashPoint() // killed before this command ran
	if w.allowErr && sym.Bool("runerr"+strconv.Itoa(w.nExec)+"_"+strconv.Itoa(w.step)) {
		// the shell could not run this command at all (for the real runner: a syntax error in
		// the command text): spok stops the run with an error; nothing of this task counts
		sym.Reach("runner-error")
		return shell.Result{}, errRunner
	}
	st := sym.Int("status"+strconv.Itoa(w.nExec), 0, w.maxFail)
	// the command's side effect: it may rewrite files that later tasks of the run depend on (a
	// formatter, a generator). When the file is also a dependency of its own task that task is
	// "murky" for this step (see inputs.unknown)
	for _, f := range w.writes[task] {
		if sym.Bool("rewrites" + strconv.Itoa(w.nExec) + "_" + strconv.Itoa(w.step) + "_" + f) {
			putFile(f, sym.String("written"+strconv.Itoa(w.nExec)+"_"+strconv.Itoa(w.step)+"_"+f, 1))
			for _, own := range declared[task].Files {
				if own == f {
					w.murky[task] = true
				}
			}
			sym.Reach("command-rewrote-a-later-task's-input")
		}
	}
	w.nExec++
	w.executed = append(w.executed, execRec{w.step, task, cmd, st})
	w.crashPoint() // killed after this command ran
	return shell.Result{Cmd: cmd, Status: st}, nil
}

// inputs of a task: the paths it hashes and their contents.
type inputs struct {
	valid    bool
	paths    []string
	contents []string
	why      string // why the run that produced this success may not have been recorded
	// unknown: the task's own commands rewrote one of its own dependencies while they ran, so
	// "the inputs it completed on" is ambiguous (as started, or as left): no claim until its next clean run
	unknown bool
}

func samePaths(a, b []string) bool {
	if len(a) != len(b) {
		return false
	}
	for i := range a {
		if a[i] != b[i] {
			return false
		}
	}
	return true
}

// sameContents is a (possibly symbolic) boolean; it does not fork.
func sameContents(a, b []string) bool {
	ok := true
	for i := range a {
		ok = sym.And(ok, a[i] == b[i])
	}
	return ok
}

func sortedCopy(s []string) []string {
	out := append([]string(nil), s...)
	for i := 1; i < len(out); i++ {
		for j := i; j > 0 && out[j] < out[j-1]; j-- {
			out[j], out[j-1] = out[j-1], out[j]
		}
	}
	return out
}

// globfilesNow are the files of this history that a glob may match, declared what the shape's
// text declares per task (both set by History).
var (
	globfilesNow []string
	declared     map[string]refs.Decl
)

// currentInputs lists what task t must hash in this invocation: its literal file dependencies
// and the files on disk that its glob patterns match. Both come from the harness's own reading
// of the shape (package refs), not from sf.Tasks or from what Run left in sf.Globs: a seeded
// change that expanded only the requested tasks' globs went unnoticed while the ghost read sf.Globs.
func currentInputs(sf *file.SpokFile, t string) inputs {
	paths := refs.Inputs(declared[t], root, globfilesNow, pathExists)
	in := inputs{valid: true, paths: paths}
	for _, p := range paths {
		in.contents = append(in.contents, readContent(p))
	}
	return in
}

// History runs a symbolic history of edits and invocations against the real SpokFile.Run.
//
// Parameters: spokfile (text), files (comma list of literal dependency files, always present),
// globfiles (comma list of files that may appear and disappear), requests (';'-separated
// request lists, each a comma list), steps, force (0/1: --force may be given), crash (0/1: one
// step may be killed), rmcache (0/1: the cache may be removed between steps), maxstatus.
func History() {
	text := sym.ParamStr("spokfile", "task A(\"a.txt\") {\n\tcmdA\n}\n")
	files := splitList(sym.ParamStr("files", "a.txt"))
	globfiles := splitList(sym.ParamStr("globfiles", ""))
	globfilesNow = append(append([]string(nil), files...), globfiles...)
	declared = refs.Declared(text)
	var requests [][]string
	for _, r := range strings.Split(sym.ParamStr("requests", "A"), ";") {
		requests = append(requests, splitList(r))
	}
	steps := sym.ParamInt("steps", 2)
	allowForce := sym.ParamInt("force", 1) == 1
	allowCrash := sym.ParamInt("crash", 0) == 1
	allowRm := sym.ParamInt("rmcache", 1) == 1
	allowMissing := sym.ParamInt("missing", 0) == 1 // a literal dependency file may be absent

	// writes: "A>b.txt,c.txt;B>d.txt": the commands of A may rewrite b.txt and c.txt ...
	writes := map[string][]string{}
	for _, part := range strings.Split(sym.ParamStr("writes", ""), ";") {
		if t, fs, ok := strings.Cut(part, ">"); ok {
			writes[t] = splitList(fs)
		}
	}
	setupProject(text)
	defer teardownProject()
	w := &world{writes: writes, crashCmd: -1, crashWrite: -1, maxFail: sym.ParamInt("maxstatus", 1), allowErr: sym.ParamInt("runerr", 0) == 1}
	last := map[string]*inputs{}
	// exempt[t]: since its last success, t failed on exactly the inputs of that success (sticky
	// until the next success; may be symbolic). Its digest is then cleared and it must run again.
	exempt := map[string]bool{}
	sym.Observe("spokfile", text)

	tree, err := parser.New(text).Parse()
	if err != nil {
		panic("harness spokfile does not parse: " + err.Error())
	}
	killedEarlier = false
	crashStep := -1
	if allowCrash {
		crashStep = sym.Int("crashstep", -1, steps-1)
	}

	for s := 0; s < steps; s++ {
		w.step = s
		tag := strconv.Itoa(s)
		// --- the environment edits, reverts, adds and removes dependency files
		for _, f := range files {
			if allowMissing && sym.Bool("absent"+tag+"_"+f) {
				// hashing a task that names it fails: the run stops with an error there
				delPath(f)
				continue
			}
			putFile(f, sym.String("in"+tag+"_"+f, 1))
		}
		for _, f := range globfiles {
			if sym.Bool("present" + tag + "_" + f) {
				putFile(f, sym.String("in"+tag+"_"+f, 1))
			} else {
				delPath(f)
			}
		}
		// --- or removes the cache
		if allowRm && s > 0 && sym.Bool("rmcache"+tag) {
			delPath(".spok")
			for _, in := range last {
				in.valid = false
			}
			sym.Reach("cache-removed")
		}
		// --- one invocation
		force := allowForce && sym.Bool("force"+tag)
		req := requests[sym.Choice("request"+tag, len(requests))]
		w.crashCmd, w.crashWrite, w.crashStage, w.point, w.writeNo, w.crashed, w.dying = -1, -1, 0, 0, 0, false, false
		w.murky = map[string]bool{}
		if s == crashStep {
			if sym.Choice("crashkind", 2) == 0 {
				w.crashCmd = sym.Int("crashcmd", 0, 11)
			} else {
				w.crashWrite = sym.Int("crashwrite", 0, sym.ParamInt("maxwrite", 1))
				w.crashStage = sym.Int("crashstage", 0, 3)
			}
		}
		sf, err := file.New(tree, root, nopLogger{})
		if err != nil {
			panic("file.New: " + err.Error())
		}
		first := len(w.executed)
		results, rerr, crashed := invoke(sf, w, force, req)
		if crashed {
			sym.Reach("crashed")
		}
		if s == crashStep && !crashed {
			// the chosen crash point lies beyond the end of this run: not a history
			sym.Assume(false)
		}
		sym.Observe("step"+tag, fmt.Sprintf("force=%v request=%v crashed=%v err=%v", force, req, crashed, rerr != nil))

		// which tasks ran, and did all their commands succeed
		ran := map[string]bool{}
		okRun := map[string]bool{}
		if !crashed && rerr == nil {
			for _, r := range results {
				if !r.Skipped {
					ran[r.Task] = true
					okRun[r.Task] = true
				}
			}
		}
		nCmds := map[string]int{}
		for _, e := range w.executed[first:] {
			nCmds[e.task]++
			if crashed || rerr != nil {
				// a killed run: a task counts as completed if all its commands returned
				if nCmds[e.task] == declared[e.task].Commands {
					ran[e.task] = true
					okRun[e.task] = true
				}
			}
		}
		allOK := true
		for _, e := range w.executed[first:] {
			if e.status != 0 {
				okRun[e.task] = false
				allOK = false
			}
		}

		if !crashed && rerr == nil {
			sym.Reach("run-returned")
			anySkipped, anyNoDeps := false, false
			for _, r := range results {
				if r.Skipped {
					anySkipped = true
				}
				if len(currentInputs(sf, r.Task).paths) == 0 {
					anyNoDeps = true
				}
			}
			for _, r := range results {
				cur := currentInputs(sf, r.Task)
				prev := last[r.Task]
				executedHere := nCmds[r.Task]
				// ---- C14 first half: --force runs everything
				if force {
					if r.Skipped {
						sym.Violation("C14/skipped-under-force", r.Task)
					}
					if executedHere != declared[r.Task].Commands {
						sym.Violation("C14/commands-not-run-under-force", r.Task)
					}
				}
				if w.murky[r.Task] || (prev != nil && prev.unknown) {
					sym.Reach("no-claim-for-a-task-that-rewrote-its-own-input")
					continue
				}
				if r.Skipped {
					sym.Reach("skipped")
					// ---- C02: a skipped task executes none of its commands
					if executedHere != 0 {
						sym.Violation("C02/skipped-task-ran-commands", r.Task)
					}
					if len(cur.paths) == 0 {
						sym.Violation("C02/task-without-file-dependency-skipped", r.Task)
					}
					// ---- C01: skipped only if inputs equal those of the last success
					switch {
					case prev == nil || !prev.valid:
						sym.Violation(staleID("never-succeeded-since-cache-removal", nil), r.Task)
					case !samePaths(cur.paths, prev.paths):
						sym.Violation(staleID("path-set-changed", prev), r.Task)
					default:
						if !sameAssert(cur, prev, r.Task) {
							return
						}
					}
					// ---- C09 (history part): a task that failed on these inputs is not up to date
					sym.Assert(!exempt[r.Task], "C09/failed-task-skipped-by-a-later-run")
				} else {
					sym.Reach("ran")
					// ---- C02: unchanged since last success => skipped
					// (C02 quantifies over crash-free histories: once a run of the history has been
					// killed, running an up-to-date task again is the cautious behaviour, which no
					// property forbids)
					if !force && !killedEarlier && len(cur.paths) > 0 && prev != nil && prev.valid && prev.why != killed && samePaths(cur.paths, prev.paths) {
						// the task ran, so its inputs must differ from those of its last success
						id := "C02/rerun-although-unchanged"
						if prev.why != "" {
							id += "/last-success-not-recorded-because-" + prev.why
						}
						// C09 takes precedence where the two clauses meet: a task that failed on the
						// inputs of its last success (at any time since) is not up to date on them
						differs := sym.Or(!sameContents(cur.contents, prev.contents), exempt[r.Task])
						sym.Assert(differs, id)
					}
				}
			}
			// ghost update: successful runs become the "last success"
			for _, r := range results {
				if w.murky[r.Task] {
					last[r.Task] = &inputs{valid: true, unknown: true}
					exempt[r.Task] = false
					continue
				}
				if ran[r.Task] && okRun[r.Task] {
					in := currentInputs(sf, r.Task)
					in.why = whyNotRecorded(force, anySkipped, anyNoDeps, !allOK, false)
					last[r.Task] = &in
					exempt[r.Task] = false
				} else if ran[r.Task] {
					in := currentInputs(sf, r.Task)
					if prev := last[r.Task]; prev != nil && prev.valid && !prev.unknown && samePaths(in.paths, prev.paths) {
						exempt[r.Task] = sym.Or(exempt[r.Task], sameContents(in.contents, prev.contents))
					}
				}
			}
		} else {
			// error or crash: tasks whose commands completed successfully still count, and a
			// task that failed on the inputs of its last success is still not up to date
			for t := range w.murky {
				last[t] = &inputs{valid: true, unknown: true}
				exempt[t] = false
			}
			for t := range ran {
				if w.murky[t] {
					continue
				}
				if okRun[t] {
					in := currentInputs(sf, t)
					if crashed {
						in.why = killed
					} else {
						in.why = "the-run-stopped-with-an-error-in-a-later-task"
					}
					last[t] = &in
					exempt[t] = false
				}
			}
			if !crashed {
				// a task with a failed command - whether or not all its commands returned before
				// the run stopped - is not up to date on the inputs of its last success
				failedAny := map[string]bool{}
				for _, e := range w.executed[first:] {
					if e.status != 0 {
						failedAny[e.task] = true
					}
				}
				for t := range failedAny {
					if w.murky[t] {
						continue
					}
					in := currentInputs(sf, t)
					if prev := last[t]; prev != nil && prev.valid && !prev.unknown && samePaths(in.paths, prev.paths) {
						exempt[t] = sym.Or(exempt[t], sameContents(in.contents, prev.contents))
					}
				}
			}
			if rerr != nil {
				sym.Reach("run-error")
				// without the absolute project path, which differs between the engine's file
				// system and the temporary directory of a native replay
				msg := rerr.Error()
				sym.Observe("error"+tag+"-mentions-cache", strings.Contains(msg, "cache"))
				if i := strings.LastIndex(msg, "\": "); i >= 0 {
					msg = msg[i+3:]
				}
				// ... and without the operating system's wording of "no such file"
				msg = strings.ReplaceAll(msg, root, "<root>")
				if i := strings.Index(msg, ": open "); i >= 0 {
					msg = msg[:i]
				}
				sym.Observe("error"+tag, msg)
			}
		}
		if crashed {
			killedEarlier = true
		}
	}
}

const (
	killed = "the-run-was-killed"
	forced = "the-run-was-forced"
)

// killedEarlier: an earlier step of the current history was killed. Any wrong skip after that
// is C10's business whatever the ghost state says about the task's last success.
var killedEarlier bool

func staleID(what string, prev *inputs) string {
	id := "C01/skipped-but-" + what
	if prev != nil && prev.why == killed {
		return "C10/skipped-on-stale-digest-after-a-killed-run"
	}
	if killedEarlier {
		return "C10/wrongly-skipped-after-a-killed-run/" + what
	}
	if prev != nil && prev.why != "" {
		id = "C01/skipped-on-stale-digest/last-success-not-recorded-because-" + prev.why
	}
	return id
}

// sameAssert states C01's step assertion for a skipped task with an unchanged path set.
func sameAssert(cur inputs, prev *inputs, task string) bool {
	id := "C01/skipped-although-inputs-differ-from-last-success"
	if prev.why == killed {
		id = "C10/skipped-on-stale-digest-after-a-killed-run"
	} else if killedEarlier {
		id = "C10/wrongly-skipped-after-a-killed-run/inputs-differ-from-last-success"
	} else if prev.why != "" {
		id = "C01/skipped-on-stale-digest/last-success-not-recorded-because-" + prev.why
	}
	sym.Assert(sameContents(cur.contents, prev.contents), id)
	return true
}

func whyNotRecorded(force, anySkipped, anyNoDeps, anyFailed, crashed bool) string {
	switch {
	case crashed:
		return killed
	case force:
		return forced
	case anyFailed:
		return "another-command-of-the-run-failed"
	case anySkipped:
		return "another-task-of-the-run-was-skipped"
	case anyNoDeps:
		return "another-task-of-the-run-has-no-file-dependency"
	}
	return ""
}

// invoke performs one invocation, converting a simulated kill into a flag.
func invoke(sf *file.SpokFile, w *world, force bool, req []string) (results []resultView, err error, crashed bool) {
	defer func() {
		if r := recover(); r != nil {
			if _, ok := r.(crash); ok {
				crashed = true
				restoreCache(w.atDeath)
				w.dying = false
				return
			}
			panic(r)
		}
	}()
	// The kill inside a write of the cache file: the same three crash points under the engine
	// (the in-memory file system's WriteFile) and in the native replay (cache.Dump's write,
	// instrumented at build time, see inpkg__cache__hook.go).
	hook := func(path string, stage int, data string) {
		if !strings.HasSuffix(path, "cache.json") || w.crashWrite < 0 || w.dying {
			return
		}
		mine := w.writeNo == w.crashWrite
		switch stage {
		case 0: // before the file is touched
			if mine && w.crashStage == 0 {
				w.die()
			}
		case 1: // truncated: the file is empty
			if mine && w.crashStage == 1 {
				w.die()
			}
			if mine && w.crashStage == 2 {
				writeRaw(path, data[:len(data)/2]) // a proper prefix is on disk
				w.die()
			}
		case 2: // complete
			if mine && w.crashStage == 3 {
				w.die()
			}
			w.writeNo++
		}
	}
	if sym.Symbolic() {
		vfs.WriteHook = hook
		defer func() { vfs.WriteHook = nil }()
	} else {
		cache.VerifWriteHook = hook
		defer func() { cache.VerifWriteHook = nil }()
	}
	res, e := sf.Run(iostream.Null(), &runner{w}, force, req...)
	for _, r := range res {
		results = append(results, resultView{r.Task, r.Skipped})
	}
	return results, e, false
}

type resultView struct {
	Task    string
	Skipped bool
}

func splitList(s string) []string {
	if s == "" {
		return nil
	}
	return strings.Split(s, ",")
}
