package runh

// Harnesses lists the harness entry points of this package for native playback.
var Harnesses = map[string]func(){
	"History":   History,
	"Order":     Order,
	"Find":      Find,
	"HashClean": HashClean,
	"HashDet":   HashDet,
	"Glob":      Glob,
}
