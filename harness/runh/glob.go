package runh

import (
	"os"
	"path/filepath"
	"sort"
	"strconv"
	"strings"

	"github.com/FollowTheProcess/spok/ast"
	"github.com/FollowTheProcess/spok/file"
	"github.com/FollowTheProcess/spok/iostream"
	"github.com/FollowTheProcess/spok/zzverif/sym"
	"github.com/bmatcuk/doublestar/v4"
)

// globPool is the candidate tree: every entry is present or not (symbolic); a leading '?' in
// a path component is replaced by '.' or 'h' (symbolic), so "is it hidden" is part of the space.
var globPool = []string{
	"a.x", "?idden.x", "z.x", "readme",
	"d/c.x", "d/?h.x", "d/sub/f.x",
	"?dir/e.x", "m.y",
}

var globPatterns = []string{
	"*.x", "**/*.x", "d/*", "*/*", "**", "d/**", "{a,z}.*", "*.y", "d/*.x", "**/f.x",
	"*", "d/**/*.x", "?.*", "[a-m]*.x", "*/sub/*", "**/*", "d/c.x*", "*dden.x", "**/?h.*", "*.{x,y}",
}

// Glob: a glob denotes exactly the matching non-hidden files under the spokfile dir (C05).
func Glob() {
	pattern := globPatterns[sym.ParamInt("pattern", 0)]
	// optionally a second task with a second pattern: what a pattern denotes must not depend on
	// which other patterns the spokfile contains (a seeded change shared a "seen" set between
	// patterns, so that overlapping patterns lost matches, DESIGN.md 9.5)
	patterns := []string{pattern}
	if k := sym.ParamInt("pattern2", -1); k >= 0 {
		patterns = append(patterns, globPatterns[k])
	}
	npool := sym.ParamInt("pool", len(globPool))
	setupProject("")
	defer teardownProject()
	// the project directory's own name may contain glob metacharacters: they are part of where the
	// project is, not of any pattern (a seeded change joined directory and pattern into one
	// pattern; every harness directory had a plain name, DESIGN.md 9.5)
	if sym.ParamInt("oddroot", 0) == 1 && sym.Bool("odd_root") {
		relocateRoot("p [v2]{x}")
	}

	var present []string // relative paths of the files in the tree
	for k, raw := range globPool[:npool] {
		if !sym.Bool("present" + strconv.Itoa(k)) {
			continue
		}
		rel := raw
		if strings.Contains(raw, "?") {
			c := "h"
			if sym.Choice("dot"+strconv.Itoa(k), 2) == 1 {
				c = "."
			}
			rel = strings.Replace(raw, "?", c, 1)
		}
		putFile(rel, "x")
		present = append(present, rel)
	}
	sym.Observe("pattern", strings.Join(patterns, " + "))
	sym.Observe("tree", strings.Join(present, " "))

	// ---- reference: every file or directory of the tree whose relative path matches the
	// pattern and does not begin with a dot (doublestar.Match is the library's own matcher)
	all := map[string]bool{}
	for _, f := range present {
		all[f] = true
		for d := filepath.Dir(f); d != "."; d = filepath.Dir(d) {
			all[d] = true
		}
	}
	all["spokfile"] = true

	// ---- the real code: one task per pattern, the pattern as its glob dependency
	tree := ast.Tree{}
	names := []string{"t", "u"}
	for i, pat := range patterns {
		tree.Append(ast.Task{
			Name:         ast.Ident{Name: names[i], NodeType: ast.NodeIdent},
			Docstring:    ast.Comment{NodeType: ast.NodeComment},
			Dependencies: []ast.Node{ast.String{Text: pat, NodeType: ast.NodeString}},
			NodeType:     ast.NodeTask,
		})
	}
	expansions := [2]map[string][]string{{}, {}}
	for round := 0; round < 2; round++ {
		sf, err := file.New(tree, root, nopLogger{})
		if err != nil {
			panic(err)
		}
		_, err = sf.Run(iostream.Null(), &orderRunner{}, true, "t")
		if err != nil {
			sym.Observe("error", err.Error())
			sym.Violation("C05/expansion-failed", "")
			return
		}
		for _, pat := range patterns {
			var rels []string
			for _, abs := range sf.Globs[pat] {
				rels = append(rels, strings.TrimPrefix(abs, root+"/"))
			}
			sort.Strings(rels)
			expansions[round][pat] = rels
		}
	}
	sym.Reach("C05/expanded")
	for i, pat := range patterns {
		// ---- reference: every file or directory of the tree whose relative path matches the
		// pattern and does not begin with a dot (doublestar.Match is the library's own matcher)
		var want []string
		for p := range all {
			ok, err := doublestar.Match(pat, p)
			if err != nil {
				panic(err)
			}
			if ok && !strings.HasPrefix(p, ".") {
				want = append(want, p)
			}
		}
		sort.Strings(want)
		got, again := expansions[0][pat], expansions[1][pat]
		suffix := ""
		if i > 0 {
			suffix = "2"
		}
		sym.Observe("got"+suffix, strings.Join(got, " "))
		sym.Observe("want"+suffix, strings.Join(want, " "))
		sym.Assert(strings.Join(got, " ") == strings.Join(again, " "), "C05/expansion-not-repeatable")
		gotSet := map[string]bool{}
		for _, g := range got {
			gotSet[g] = true
		}
		for _, p := range want {
			if !gotSet[p] {
				switch {
				case anyHiddenSibling(p, present):
					sym.Violation("C05/matching-file-omitted-next-to-a-hidden-entry", p)
				case len(patterns) > 1:
					sym.Violation("C05/matching-file-omitted-when-another-pattern-is-present", p)
				default:
					sym.Violation("C05/matching-file-omitted", p)
				}
				return
			}
		}
		wantSet := map[string]bool{}
		for _, p := range want {
			wantSet[p] = true
		}
		for _, g := range got {
			if !wantSet[g] {
				sym.Violation("C05/non-matching-or-hidden-entry-included", g)
				return
			}
		}
		sym.Assert(len(got) == len(want), "C05/duplicate-in-expansion")
	}
}

// anyHiddenSibling reports whether the directory of p also holds an entry whose relative path
// begins with a dot (used only to classify a violation).
func anyHiddenSibling(p string, present []string) bool {
	dir := filepath.Dir(p)
	for _, f := range present {
		for q := f; q != "."; q = filepath.Dir(q) {
			if filepath.Dir(q) == dir && strings.HasPrefix(q, ".") {
				return true
			}
		}
	}
	return false
}

var _ = os.Remove
