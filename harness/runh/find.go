package runh

import (
	"os"
	"path/filepath"
	"strconv"
	"strings"

	"github.com/FollowTheProcess/spok/file"
	"github.com/FollowTheProcess/spok/zzverif/sym"
	"github.com/FollowTheProcess/spok/zzverif/vfs"
)

// Find: spokfile discovery terminates and finds the nearest enclosing spokfile (C17).
//
// A chain base/d1/d2/.../d<depth>; every level independently holds an entry sorting before
// "spokfile", a regular file or a directory named spokfile (or neither), and an entry sorting
// after it. Start is one of the levels; stop is one of the levels, the file-system root, or an
// unrelated directory. Termination is decided by the engine's instruction budget (and by the
// watchdog of the native replay).
func Find() {
	depth := sym.ParamInt("depth", 3)
	base := "/base"
	if sym.Symbolic() {
		vfs.Reset()
		vfs.AddDir(base)
		vfs.AddDir("/unrelated")
	} else {
		dir, err := os.MkdirTemp("", "gosym-find-")
		if err != nil {
			panic(err)
		}
		dir, _ = filepath.EvalSymlinks(dir)
		base = dir
		defer os.RemoveAll(dir)
		os.MkdirAll(filepath.Join(dir, "unrelated"), 0o755)
	}
	mk := func(p string, isDir bool) {
		if sym.Symbolic() {
			if isDir {
				vfs.AddDir(p)
			} else {
				vfs.AddFile(p, "x")
			}
			return
		}
		if isDir {
			os.MkdirAll(p, 0o755)
		} else {
			os.MkdirAll(filepath.Dir(p), 0o755)
			os.WriteFile(p, []byte("x"), 0o644)
		}
	}
	levels := make([]string, depth+1) // levels[0] = base
	levels[0] = base
	kind := make([]int, depth+1) // 0 nothing, 1 regular spokfile, 2 directory named spokfile
	var desc []string
	for l := 1; l <= depth; l++ {
		levels[l] = levels[l-1] + "/d" + strconv.Itoa(l)
		mk(levels[l], true)
		tag := strconv.Itoa(l)
		d := "L" + tag + ":"
		if sym.Bool("before" + tag) {
			mk(levels[l]+"/aaa", false)
			d += "a"
		}
		kind[l] = sym.Choice("spokfile"+tag, 3)
		switch kind[l] {
		case 1:
			mk(levels[l]+"/spokfile", false)
			d += "F"
		case 2:
			mk(levels[l]+"/spokfile", true)
			d += "D"
		}
		if sym.Bool("after" + tag) {
			mk(levels[l]+"/zzz", false)
			d += "z"
		}
		desc = append(desc, d)
	}
	start := 1 + sym.Choice("start", depth)
	// stop: a level 1..depth, or depth+1 = file-system root, depth+2 = unrelated directory
	stopSel := 1 + sym.Choice("stop", depth+2)
	stop := "/"
	switch {
	case stopSel <= depth:
		stop = levels[stopSel]
	case stopSel == depth+2:
		stop = base + "/unrelated"
		if sym.Symbolic() {
			stop = "/unrelated"
		}
	}
	sym.Observe("tree", strings.Join(desc, " "))
	sym.Observe("start", start)
	sym.Observe("stop", stopSel)

	// The start directory may be given relative to the working directory (which is then one of
	// the levels at or above it): "always terminates" has no exception for that, although only
	// the weaker clauses below are claimed for the result (spok itself always passes an absolute
	// path). A seeded change that compared the climbing path with "/" never terminated from a
	// relative start, and went unnoticed while every start was absolute (DESIGN.md 9.5).
	startArg := levels[start]
	relative := sym.ParamInt("relative", 1) == 1 && sym.Bool("relative_start")
	if relative {
		c := sym.Choice("cwd", start+1)
		if c == start {
			startArg = "."
		} else {
			startArg = strings.TrimPrefix(levels[start], levels[c]+"/")
		}
		if sym.Symbolic() {
			vfs.Cwd = levels[c]
		} else {
			old, _ := os.Getwd()
			os.Chdir(levels[c])
			defer os.Chdir(old)
		}
		sym.Observe("cwd", c)
	}
	got, err := file.Find(nopLogger{}, startArg, stop)
	sym.Reach("C17/returned")
	rel := ""
	if err == nil {
		rel = strings.TrimPrefix(got, base)
	}
	sym.Observe("found", rel)

	if !relative && ((stopSel <= depth && start >= stopSel) || stopSel == depth+1) {
		// start is at or below stop (the root is above everything): the nearest regular
		// spokfile between them, or not found
		lowest := stopSel
		if stopSel == depth+1 {
			lowest = 1
		}
		want := ""
		for l := start; l >= lowest; l-- {
			if kind[l] == 1 {
				want = strings.TrimPrefix(levels[l], base) + "/spokfile"
				break
			}
		}
		if want == "" {
			sym.Assert(err != nil, "C17/found-a-spokfile-although-none-in-range")
		} else {
			sym.Assert(err == nil, "C17/missed-the-spokfile")
			if err == nil {
				sym.Assert(rel == want, "C17/not-the-nearest-spokfile")
			}
		}
		return
	}
	// start is not below stop (stop is a deeper level or an unrelated directory): it must terminate (decided by
	// the budget), and anything returned must be a regular spokfile in an ancestor-or-self of start
	if err == nil {
		ok := false
		for l := start; l >= 1; l-- {
			if kind[l] == 1 && rel == strings.TrimPrefix(levels[l], base)+"/spokfile" {
				ok = true
			}
		}
		sym.Assert(ok, "C17/returned-something-that-is-not-an-enclosing-spokfile")
	}
}
