package runh

import (
	"strconv"
	"strings"

	"github.com/FollowTheProcess/spok/ast"
	"github.com/FollowTheProcess/spok/file"
	"github.com/FollowTheProcess/spok/iostream"
	"github.com/FollowTheProcess/spok/shell"
	"github.com/FollowTheProcess/spok/zzverif/sym"
)

// orderRunner records the order in which task commands reach the shell.
type orderRunner struct {
	ran   []string
	fail  string // task whose command fails ("" = none)
	calls int
}

func (r *orderRunner) Run(cmd string, stream iostream.IOStream, task string, env []string) (shell.Result, error) {
	r.ran = append(r.ran, task)
	st := 0
	if task == r.fail {
		st = 1
	}
	return shell.Result{Cmd: cmd, Status: st}, nil
}

var taskNames = []string{"a", "b", "c", "d"}

// Order: requested tasks and their transitive dependencies run once, dependencies first (C03).
//
// Parameters: n (number of defined tasks), reqlen (length of the request list), undefined (0/1:
// may a dependency on an undefined name and a request of an undefined name occur), dup (0/1: may
// a task be defined twice), fail (0/1: may one task's command fail).
// The edge set (including self-loops) is symbolic: edge i->j means task i depends on task j.
func Order() {
	n := sym.ParamInt("n", 3)
	reqlen := sym.ParamInt("reqlen", 1)
	names := taskNames[:n]
	setupProject("")
	defer teardownProject()

	// ---- the spokfile, as AST nodes handed to the real file.New
	dep := make([][]bool, n)
	var tree ast.Tree
	undefinedDepOf := -1
	for i := 0; i < n; i++ {
		dep[i] = make([]bool, n)
		var deps []ast.Node
		for j := 0; j < n; j++ {
			if sym.Bool("dep_" + names[i] + "_" + names[j]) {
				dep[i][j] = true
				deps = append(deps, ast.Ident{Name: names[j], NodeType: ast.NodeIdent})
			}
		}
		if i == 0 && sym.ParamInt("undefined", 0) == 1 && sym.Bool("dep_a_undefined") {
			undefinedDepOf = 0
			deps = append(deps, ast.Ident{Name: "zz", NodeType: ast.NodeIdent})
		}
		tree.Append(ast.Task{
			Name:         ast.Ident{Name: names[i], NodeType: ast.NodeIdent},
			Docstring:    ast.Comment{NodeType: ast.NodeComment},
			Dependencies: deps,
			Commands:     []ast.Command{{Command: "run-" + names[i], NodeType: ast.NodeCommand}},
			NodeType:     ast.NodeTask,
		})
	}
	duplicate := sym.ParamInt("dup", 0) == 1 && sym.Bool("duplicate_a")
	if duplicate {
		tree.Append(ast.Task{
			Name:      ast.Ident{Name: "a", NodeType: ast.NodeIdent},
			Docstring: ast.Comment{NodeType: ast.NodeComment},
			Commands:  []ast.Command{{Command: "run-a2", NodeType: ast.NodeCommand}},
			NodeType:  ast.NodeTask,
		})
	}

	// ---- the request list
	pool := append([]string{}, names...)
	if sym.ParamInt("undefined", 0) == 1 {
		pool = append(pool, "zz")
	}
	var req []string
	for k := 0; k < reqlen; k++ {
		req = append(req, pool[sym.Choice("request"+strconv.Itoa(k), len(pool))])
	}
	runner := &orderRunner{}
	if sym.ParamInt("fail", 0) == 1 {
		if f := sym.Choice("failing", n+1); f < n {
			runner.fail = names[f]
		}
	}
	sym.Observe("request", strings.Join(req, ","))
	sym.Observe("edges", edgeString(dep, names))

	// ---- reference: closure of the request, and the error cases
	index := map[string]int{}
	for i, nm := range names {
		index[nm] = i
	}
	wantErr := ""
	if duplicate {
		wantErr = "duplicate-task"
	}
	inClosure := make([]bool, n)
	var visit func(i int)
	visit = func(i int) {
		if inClosure[i] {
			return
		}
		inClosure[i] = true
		if i == undefinedDepOf && wantErr == "" {
			wantErr = "undefined-dependency"
		}
		for j := 0; j < n; j++ {
			if dep[i][j] {
				visit(j)
			}
		}
	}
	for _, r := range req {
		i, ok := index[r]
		if !ok {
			if wantErr == "" {
				wantErr = "undefined-request"
			}
			continue
		}
		visit(i)
	}
	if wantErr == "" && hasCycle(dep, inClosure) {
		wantErr = "cycle"
	}

	// ---- the real code
	sf, err := file.New(tree, root, nopLogger{})
	var results []resultView
	if err == nil {
		var res []resultViewT
		res, err = runOrder(sf, runner, req)
		for _, r := range res {
			results = append(results, resultView{r.Task, r.Skipped})
		}
	}
	// the order among independent tasks depends on map iteration (random natively, a decision in
	// the engine): keys starting with "~" are informational and never compared between the two
	sym.Observe("~ran", strings.Join(runner.ran, ","))
	sym.Observe("ran-set", strings.Join(sortedCopy(runner.ran), ","))
	sym.Observe("error", err != nil)

	if wantErr != "" {
		sym.Reach("C03/error-case:" + wantErr)
		sym.Assert(err != nil, "C03/no-error-for-"+wantErr)
		sym.Assert(len(runner.ran) == 0, "C03/tasks-ran-although-"+wantErr)
		return
	}
	sym.Reach("C03/valid-selection")
	if err != nil {
		sym.Observe("errtext", err.Error())
		sym.Violation("C03/valid-selection-rejected", "")
		return
	}
	// every task of the closure ran exactly once, nothing else ran
	count := make([]int, n)
	pos := make([]int, n)
	for k, t := range runner.ran {
		i := index[t]
		count[i]++
		pos[i] = k
	}
	for i := 0; i < n; i++ {
		if inClosure[i] {
			if _, requested := indexOf(req, names[i]); requested {
				sym.Assert(count[i] > 0, "C03/requested-task-left-out")
			} else {
				sym.Assert(count[i] > 0, "C03/transitive-dependency-left-out")
			}
			sym.Assert(count[i] <= 1, "C03/task-ran-twice")
		} else {
			sym.Assert(count[i] == 0, "C03/unselected-task-ran")
		}
	}
	// dependencies first
	for i := 0; i < n; i++ {
		for j := 0; j < n; j++ {
			if dep[i][j] && count[i] > 0 && count[j] > 0 {
				sym.Assert(pos[j] < pos[i] || i == j, "C03/task-started-before-its-dependency")
			}
		}
	}
	// the results list the same tasks in the same order
	if len(results) != len(runner.ran) {
		sym.Violation("C03/results-do-not-match-execution", "")
		return
	}
	for k := range results {
		if results[k].Task != runner.ran[k] {
			sym.Violation("C03/results-do-not-match-execution", "")
			return
		}
	}
}

type resultViewT struct {
	Task    string
	Skipped bool
}

func runOrder(sf *file.SpokFile, runner *orderRunner, req []string) ([]resultViewT, error) {
	res, err := sf.Run(iostream.Null(), runner, false, req...)
	var out []resultViewT
	for _, r := range res {
		out = append(out, resultViewT{r.Task, r.Skipped})
	}
	return out, err
}

func indexOf(l []string, s string) (int, bool) {
	for i, x := range l {
		if x == s {
			return i, true
		}
	}
	return -1, false
}

// hasCycle reports whether the sub-graph induced by the selected vertices has a cycle.
func hasCycle(dep [][]bool, sel []bool) bool {
	n := len(dep)
	state := make([]int, n) // 0 new, 1 on stack, 2 done
	var dfs func(i int) bool
	dfs = func(i int) bool {
		state[i] = 1
		for j := 0; j < n; j++ {
			if !dep[i][j] || !sel[j] {
				continue
			}
			if state[j] == 1 {
				return true
			}
			if state[j] == 0 && dfs(j) {
				return true
			}
		}
		state[i] = 2
		return false
	}
	for i := 0; i < n; i++ {
		if sel[i] && state[i] == 0 && dfs(i) {
			return true
		}
	}
	return false
}

func edgeString(dep [][]bool, names []string) string {
	var parts []string
	for i := range dep {
		for j := range dep[i] {
			if dep[i][j] {
				parts = append(parts, names[i]+"->"+names[j])
			}
		}
	}
	return strings.Join(parts, " ")
}
