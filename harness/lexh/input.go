// Package lexh holds the harnesses of the lexer / parser / formatter properties
// (C16, C08, C06, C07, C11, C15). They use only the exported API of spok's packages.
package lexh

import (
	"strconv"
	"strings"

	"github.com/FollowTheProcess/spok/zzverif/sym"
)

// Input builds the (partly) symbolic source text from the job parameter "skel":
// fixed text and hole lengths alternate, separated by \x1f:  fixed \x1f 3 \x1f fixed ...
// Hole k is the symbolic string h<k> of the given length (all 256 byte values).
func Input() string {
	sk := sym.ParamStr("skel", "\x1f2\x1f")
	parts := strings.Split(sk, "\x1f")
	var b strings.Builder
	hole := 0
	for i, p := range parts {
		if i%2 == 0 {
			b.WriteString(p)
			continue
		}
		n, err := strconv.Atoi(p)
		if err != nil {
			panic("bad skeleton")
		}
		b.WriteString(sym.String("h"+strconv.Itoa(hole), n))
		hole++
	}
	return b.String()
}
