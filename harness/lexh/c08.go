package lexh

import (
	"strconv"
	"strings"

	"github.com/FollowTheProcess/spok/parser"
	"github.com/FollowTheProcess/spok/zzverif/sym"
)

const (
	fnSyntaxErr    = "(github.com/FollowTheProcess/spok/lexer.syntaxError).Error"
	fnIllegalToken = "(github.com/FollowTheProcess/spok/parser.illegalToken).Error"
)

// trimmedLine returns TrimSpace of the n-th (1-based) line of src.
func trimmedLine(src string, n int) string {
	return strings.TrimSpace(strings.Split(src, "\n")[n-1])
}

// C08: parsing any input terminates, deterministically, with a tree or a located error.
//
// Termination and absence of panics are decided by the engine itself (instruction budget,
// crash verdicts in any goroutine); this function states determinism and the located-error
// clause.
func C08() {
	src := Input()
	sym.Observe("src", src)
	tree, err := parser.New(src).Parse()
	nLines := 1 + strings.Count(src, "\n")
	if err == nil {
		sym.Reach("C08/tree")
		sym.Observe("result", "tree")
	} else {
		sym.Reach("C08/error")
		sym.Observe("result", "error")
		msg := err.Error()
		sym.Observe("error", msg)
		if sym.Symbolic() {
			// The message may contain formatted symbolic data, so it is not parsed; instead the
			// located-error objects whose Error method produced text on this path are inspected:
			// the error handed to the caller must be the text of one of them, and that one must
			// carry a valid line and the trimmed text of that line.
			found := false
			for k := 0; k < sym.Calls(fnSyntaxErr) && !found; k++ {
				if sym.CallArg(fnSyntaxErr, k, 1).(string) == msg {
					found = true
					line := sym.CallArg(fnSyntaxErr, k, 0, 2).(int)
					ok := line >= 1 && line <= nLines
					sym.Assert(ok, "C08/error-line-out-of-range")
					if ok {
						sym.Assert(sym.CallArg(fnSyntaxErr, k, 0, 1).(string) == trimmedLine(src, line), "C08/error-context-not-the-line")
					}
				}
			}
			for k := 0; k < sym.Calls(fnIllegalToken) && !found; k++ {
				if sym.CallArg(fnIllegalToken, k, 1).(string) == msg {
					found = true
					line := sym.CallArg(fnIllegalToken, k, 0, 2, 3).(int)
					ok := line >= 1 && line <= nLines
					sym.Assert(ok, "C08/error-line-out-of-range")
					if ok {
						sym.Assert(sym.CallArg(fnIllegalToken, k, 0, 0).(string) == trimmedLine(src, line), "C08/error-context-not-the-line")
					}
				}
			}
			if !found {
				sym.Violation("C08/error-without-location", "the error returned is not the text of a located error")
			}
		} else {
			checkLocatedText(src, msg, nLines)
		}
	}
	// the same input always gives the same result
	tree2, err2 := parser.New(src).Parse()
	sym.Assert((err == nil) == (err2 == nil), "C08/nondeterministic")
	if err != nil && err2 != nil {
		sym.Assert(err.Error() == err2.Error(), "C08/nondeterministic")
	}
	if err == nil && err2 == nil {
		sym.Assert(tree.String() == tree2.String(), "C08/nondeterministic")
	}
}

// checkLocatedText is the native oracle: the message must end with "\n\n<n> |\t<context>",
// cite "(Line <n>)" with 1 <= n <= number of lines, and context must be that line, trimmed.
func checkLocatedText(src, msg string, nLines int) {
	i := strings.LastIndex(msg, "\n\n")
	if i < 0 {
		sym.Violation("C08/error-without-location", msg)
		return
	}
	last := msg[i+2:]
	j := strings.Index(last, " |\t")
	if j < 0 {
		sym.Violation("C08/error-without-location", msg)
		return
	}
	n, err := strconv.Atoi(last[:j])
	if err != nil || !strings.Contains(msg[:i], "(Line "+last[:j]+")") {
		sym.Violation("C08/error-without-location", msg)
		return
	}
	ok := n >= 1 && n <= nLines
	sym.Assert(ok, "C08/error-line-out-of-range")
	if ok {
		sym.Assert(last[j+3:] == trimmedLine(src, n), "C08/error-context-not-the-line")
	}
}
