package lexh

import (
	"unicode"
	"unicode/utf8"

	"github.com/FollowTheProcess/spok/lexer"
	"github.com/FollowTheProcess/spok/token"
	"github.com/FollowTheProcess/spok/zzverif/sym"
)

// C16: tokens tile the input with exact offsets and line numbers.
func C16() {
	src := Input()
	sym.Observe("src", src)
	sym.Prune(true) // error paths end when the lexer starts to build its error token
	l := lexer.New(src)
	prevEnd := 0 // end offset of the previous token
	lines := 1   // 1 + number of '\n' in src[:scanned]
	scanned := 0
	n := 0
	for {
		tok := l.NextToken()
		n++
		if n > 2*len(src)+4 {
			sym.Violation("C16/stream-not-finite", "more tokens than the input can hold")
			return
		}
		if tok.Type == token.ERROR {
			sym.Reach("C16/error-token")
			sym.Observe("end", "error")
			return
		}
		// offsets: increasing, non-overlapping, inside the input
		inRange := tok.Pos >= prevEnd && tok.Pos+len(tok.Value) <= len(src)
		sym.Assert(inRange, "C16/offset-order")
		if !inRange {
			return
		}
		// the token's text is exactly the slice of the input at its offset
		sym.Assert(src[tok.Pos:tok.Pos+len(tok.Value)] == tok.Value, "C16/value-is-slice")
		// nothing but whitespace between tokens
		gap := src[prevEnd:tok.Pos]
		for len(gap) > 0 {
			r, w := utf8.DecodeRuneInString(gap)
			sym.Assert(unicode.IsSpace(r), "C16/gap-is-space")
			gap = gap[w:]
		}
		// line number = 1 + newlines before the offset
		for scanned < tok.Pos {
			if src[scanned] == '\n' {
				lines++
			}
			scanned++
		}
		sym.Assert(tok.Line == lines, "C16/line-number")
		prevEnd = tok.Pos + len(tok.Value)
		if tok.Type == token.EOF {
			sym.Reach("C16/eof-token")
			sym.Assert(tok.Pos == len(src), "C16/eof-at-end")
			sym.Assert(len(tok.Value) == 0, "C16/eof-empty")
			sym.Observe("end", "eof")
			sym.Observe("tokens", n)
			return
		}
	}
}
