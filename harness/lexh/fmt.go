package lexh

import (
	"strings"

	"github.com/FollowTheProcess/spok/ast"
	"github.com/FollowTheProcess/spok/parser"
	"github.com/FollowTheProcess/spok/zzverif/sym"
)

// parseTwice parses x, formats the tree and parses the formatted text.
// ok1 reports whether x parsed, ok2 whether the formatted text parsed.
func parseTwice() (src string, t1 ast.Tree, s1 string, t2 ast.Tree, ok1, ok2 bool) {
	src = Input()
	sym.Observe("src", src)
	sym.Prune(true) // inputs that do not parse are outside the quantifier: stop at the first error
	t1, err := parser.New(src).Parse()
	sym.Prune(false)
	if err != nil {
		sym.Reach("parse-fails")
		return
	}
	ok1 = true
	sym.Reach("parses")
	s1 = t1.String()
	sym.Observe("formatted", s1)
	t2, err = parser.New(s1).Parse()
	if err != nil {
		sym.Observe("reparse-error", err.Error())
		return
	}
	ok2 = true
	return
}

func nodeKey(n ast.Node) (kind string, text string, args []ast.Node) {
	switch v := n.(type) {
	case ast.String:
		return "string", v.Text, nil
	case ast.Ident:
		return "ident", v.Name, nil
	case ast.Function:
		return "func", v.Name.Name, v.Arguments
	case ast.Command:
		return "command", v.Command, nil
	}
	return "other", "", nil
}

// sameNodes asserts that two node lists are equal in kind and text.
func sameNodes(a, b []ast.Node, id string) bool {
	if len(a) != len(b) {
		sym.Violation(id, "different number of elements")
		return false
	}
	for i := range a {
		ka, ta, aa := nodeKey(a[i])
		kb, tb, ab := nodeKey(b[i])
		if ka != kb {
			sym.Violation(id, "element kind differs: "+ka+" vs "+kb)
			return false
		}
		sym.Assert(ta == tb, id)
		if ka == "func" && !sameNodes(aa, ab, id) {
			return false
		}
	}
	return true
}

func meaningful(t ast.Tree) []ast.Node {
	var out []ast.Node
	for _, n := range t.Nodes {
		switch n.(type) {
		case ast.Assign, ast.Task:
			out = append(out, n)
		}
	}
	return out
}

// reparseClass classifies why formatted text might not parse, so that distinct causes get
// distinct violation signatures.
func reparseClass(t ast.Tree) string {
	for _, n := range t.Nodes {
		switch v := n.(type) {
		case ast.Assign:
			if strings.HasPrefix(v.Name.Name, "task") {
				return "assign-name-has-keyword-prefix"
			}
			if id, ok := v.Value.(ast.Ident); ok {
				_ = id
				return "assign-ident-value"
			}
		}
	}
	return "other"
}

// C07: formatting never changes what a spokfile does, and its output always parses.
func C07() {
	_, t1, _, t2, ok1, ok2 := parseTwice()
	if !ok1 {
		return
	}
	if !ok2 {
		sym.Violation("C07/formatted-text-does-not-parse/"+reparseClass(t1), "")
		return
	}
	sym.Reach("C07/reparsed")
	m1, m2 := meaningful(t1), meaningful(t2)
	if len(m1) != len(m2) {
		sym.Violation("C07/statement-count-changed", "")
		return
	}
	for i := range m1 {
		switch a := m1[i].(type) {
		case ast.Assign:
			b, ok := m2[i].(ast.Assign)
			if !ok {
				sym.Violation("C07/statement-kind-changed", "")
				return
			}
			sym.Assert(a.Name.Name == b.Name.Name, "C07/variable-name-changed")
			sameNodes([]ast.Node{a.Value}, []ast.Node{b.Value}, "C07/variable-value-changed")
		case ast.Task:
			b, ok := m2[i].(ast.Task)
			if !ok {
				sym.Violation("C07/statement-kind-changed", "")
				return
			}
			sym.Assert(a.Name.Name == b.Name.Name, "C07/task-name-changed")
			sameNodes(a.Dependencies, b.Dependencies, "C07/dependencies-changed")
			sameNodes(a.Outputs, b.Outputs, "C07/outputs-changed")
			ca := make([]ast.Node, len(a.Commands))
			for k := range a.Commands {
				ca[k] = a.Commands[k]
			}
			cb := make([]ast.Node, len(b.Commands))
			for k := range b.Commands {
				cb[k] = b.Commands[k]
			}
			sameNodes(ca, cb, "C07/commands-changed")
		}
	}
}

// C11: formatting is idempotent.
func C11() {
	_, _, s1, t2, ok1, ok2 := parseTwice()
	if !ok1 || !ok2 {
		return // inputs whose formatted text does not parse are C07's subject
	}
	sym.Reach("C11/reparsed")
	s2 := t2.String()
	sym.Observe("formatted-twice", s2)
	if len(s1) != len(s2) {
		sym.Violation("C11/not-idempotent", "length changes on second formatting")
		return
	}
	sym.Assert(s1 == s2, "C11/not-idempotent")
}

// comments returns the trimmed non-empty comment texts of a tree in source order
// (docstrings count at the position of their task), the trimmed docstring of every task, and the
// skeleton of the tree: one letter per item in order - 'c' a comment, 'd' a non-empty docstring,
// 'a' an assignment, 't' a task - so that a comment moving past a statement changes it.
func comments(t ast.Tree) (all []string, docs []string, skeleton string) {
	for _, n := range t.Nodes {
		switch v := n.(type) {
		case ast.Comment:
			if s := strings.TrimSpace(v.Text); s != "" {
				all = append(all, s)
				skeleton += "c"
			}
		case ast.Assign:
			skeleton += "a"
		case ast.Task:
			d := strings.TrimSpace(v.Docstring.Text)
			if d != "" {
				all = append(all, d)
				skeleton += "d"
			}
			docs = append(docs, d)
			skeleton += "t"
		}
	}
	return
}

// docstringCause classifies why a docstring changed, so that distinct causes get distinct
// violation signatures: the source has an empty '#' line directly before a task (that empty
// comment is the task's docstring and prints as nothing), or something else.
func docstringCause(src string) string {
	lines := strings.Split(src, "\n")
	for i, l := range lines {
		if strings.TrimSpace(l) != "#" {
			continue
		}
		for j := i + 1; j < len(lines); j++ {
			next := strings.TrimSpace(lines[j])
			if next == "" {
				continue
			}
			if strings.HasPrefix(next, "task") {
				return "empty-comment-line-before-the-task"
			}
			break
		}
	}
	return "other-cause"
}

// C15: formatting keeps every comment and every task's docstring.
func C15() {
	src, t1, _, t2, ok1, ok2 := parseTwice()
	if !ok1 || !ok2 {
		return
	}
	sym.Reach("C15/reparsed")
	all1, docs1, sk1 := comments(t1)
	all2, docs2, sk2 := comments(t2)
	if len(docs1) == len(docs2) {
		for i := range docs1 {
			if len(docs1[i]) != len(docs2[i]) {
				sym.Violation("C15/docstring-changed/"+docstringCause(src), "")
				return // one report per path: the role change below is the same event
			} else {
				sym.Assert(docs1[i] == docs2[i], "C15/docstring-changed/same-length-different-text")
			}
		}
	}
	if len(all1) != len(all2) {
		sym.Violation("C15/comment-lost-or-duplicated", "")
		return
	}
	// same texts in the same order is not enough: a comment must not move past a statement, nor
	// turn from a standalone comment into a docstring or back
	if sk1 != sk2 {
		sym.Observe("skeleton", sk1+" -> "+sk2)
		sym.Violation("C15/comment-moved-past-a-statement-or-changed-role", "")
		return
	}
	for i := range all1 {
		if len(all1[i]) != len(all2[i]) {
			sym.Violation("C15/comment-text-changed", "")
		} else {
			sym.Assert(all1[i] == all2[i], "C15/comment-text-changed")
		}
	}
}
