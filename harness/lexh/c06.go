package lexh

import (
	"strconv"
	"strings"

	"github.com/FollowTheProcess/spok/ast"
	"github.com/FollowTheProcess/spok/parser"
	"github.com/FollowTheProcess/spok/zzverif/sym"
)

// Byte classes as look-up tables (a table look-up on a symbolic byte does not fork).
var (
	tblBlank      [256]bool // space, tab
	tblIdent      [256]bool // ASCII letters and '_'
	tblStr        [256]bool // allowed inside a string literal: everything but '"', LF, CR
	tblCmd        [256]bool // printable ASCII without '#', '{', '}'
	tblCmdEdge    [256]bool // tblCmd without blanks (last byte of a command)
	tblLetter     [256]bool // ASCII letters (first byte of a command)
	tblComment    [256]bool // first/last byte of a comment: anything but LF, CR, space, tab
	tblCommentMid [256]bool // inside a comment: anything but LF, CR
)

func init() {
	for c := 0; c < 256; c++ {
		b := byte(c)
		tblBlank[c] = b == ' ' || b == '\t'
		letter := b >= 'a' && b <= 'z' || b >= 'A' && b <= 'Z'
		tblLetter[c] = letter
		tblIdent[c] = letter || b == '_'
		tblStr[c] = b != '"' && b != '\n' && b != '\r'
		printable := b >= 0x20 && b < 0x7f
		tblCmd[c] = printable && b != '#' && b != '{' && b != '}'
		tblCmdEdge[c] = tblCmd[c] && b != ' '
		tblCommentMid[c] = b != '\n' && b != '\r'
		tblComment[c] = tblCommentMid[c] && b != ' ' && b != '\t'
	}
}

// c06 is the writer state: the text being produced and the counter of symbolic holes.
type c06 struct {
	b      strings.Builder
	n      int
	gap    int  // length of optional gaps
	crlf   bool // line ends are CRLF
	nonASC bool // append a non-ASCII letter to every name and string
}

func (w *c06) hole(n int, tbl *[256]bool, first, last *[256]bool) string {
	s := sym.String("c"+strconv.Itoa(w.n), n)
	w.n++
	for i := 0; i < len(s); i++ {
		t := tbl
		if i == 0 && first != nil {
			t = first
		}
		if i == len(s)-1 && last != nil {
			t = last
		}
		sym.Assume(t[s[i]])
	}
	return s
}

// blanks writes an optional gap (spaces/tabs) of the layout's gap length.
func (w *c06) blanks(min int) {
	n := w.gap
	if n < min {
		n = min
	}
	w.b.WriteString(w.hole(n, &tblBlank, nil, nil))
}

func (w *c06) eol() {
	if w.crlf {
		w.b.WriteString("\r\n")
	} else {
		w.b.WriteString("\n")
	}
}

func (w *c06) ident(n int) string {
	s := w.hole(n, &tblIdent, nil, nil)
	if w.nonASC {
		s += "é"
	}
	return s
}

func (w *c06) str(n int) string {
	s := w.hole(n, &tblStr, nil, nil)
	if w.nonASC {
		s += "ü世"
	}
	return s
}

type c06Arg struct {
	isIdent bool
	text    string
}

type c06Stmt struct {
	kind     string // comment, string, func, task
	name     string
	text     string // comment text / string value
	args     []c06Arg
	deps     []c06Arg
	outs     []c06Arg
	cmds     []string
	doc      string
	hasDoc   bool
	oneLine  bool
	parenOut bool
	trailing bool // trailing comma in lists
}

func (w *c06) args(spec string, size int, trailing bool) []c06Arg {
	var out []c06Arg
	for i := 0; i < len(spec); i++ {
		w.blanks(0)
		if spec[i] == 'i' {
			a := c06Arg{true, w.ident(size)}
			w.b.WriteString(a.text)
			out = append(out, a)
		} else {
			a := c06Arg{false, w.str(size)}
			w.b.WriteString(`"` + a.text + `"`)
			out = append(out, a)
		}
		w.blanks(0)
		if i < len(spec)-1 {
			w.b.WriteString(",")
		} else if trailing {
			w.b.WriteString(",")
			w.blanks(0)
		}
	}
	if len(spec) == 0 {
		w.blanks(0)
	}
	return out
}

func (w *c06) comment(size int) string {
	t := w.hole(size, &tblCommentMid, &tblComment, &tblComment)
	w.b.WriteString("#")
	w.blanks(0)
	w.b.WriteString(t)
	w.eol()
	return t
}

// write produces the text of one statement of the given shape and returns its structure.
// Shapes:  c | vs | vf:<args> | t[d][1][p][,]:<deps>:<outs>:<ncmds>   with args over {s,i}.
func (w *c06) write(shape string, size int) c06Stmt {
	parts := strings.Split(shape, ":")
	st := c06Stmt{}
	w.blanks(0) // indentation
	switch {
	case parts[0] == "c":
		st.kind = "comment"
		st.text = w.comment(size)
	case parts[0] == "vs":
		st.kind = "string"
		st.name = w.ident(size)
		w.b.WriteString(st.name)
		w.blanks(0)
		w.b.WriteString(":=")
		w.blanks(0)
		st.text = w.str(size)
		w.b.WriteString(`"` + st.text + `"`)
		w.eol()
	case parts[0] == "vf":
		st.kind = "func"
		st.name = w.ident(size)
		w.b.WriteString(st.name)
		w.blanks(0)
		w.b.WriteString(":=")
		w.blanks(0)
		st.text = "join"
		w.b.WriteString("join(")
		st.args = w.args(parts[1], size, false)
		w.b.WriteString(")")
		w.eol()
	case strings.HasPrefix(parts[0], "t"):
		st.kind = "task"
		flags := parts[0][1:]
		st.hasDoc = strings.Contains(flags, "d")
		st.oneLine = strings.Contains(flags, "1")
		st.parenOut = strings.Contains(flags, "p")
		st.trailing = strings.Contains(flags, ",")
		if st.hasDoc {
			st.doc = w.comment(size)
			w.blanks(0)
		}
		w.b.WriteString("task")
		w.blanks(1)
		st.name = w.ident(size)
		w.b.WriteString(st.name)
		w.blanks(0)
		w.b.WriteString("(")
		st.deps = w.args(parts[1], size, st.trailing && len(parts[1]) > 0)
		w.b.WriteString(")")
		w.blanks(0)
		if len(parts[2]) > 0 {
			w.b.WriteString("->")
			if len(parts[2]) > 1 || st.parenOut {
				w.blanks(0)
				w.b.WriteString("(")
				st.outs = w.args(parts[2], size, st.trailing)
				w.b.WriteString(")")
			} else {
				st.outs = w.args(parts[2], size, false)
			}
		}
		w.blanks(0)
		w.b.WriteString("{")
		ncmd, _ := strconv.Atoi(parts[3])
		if st.oneLine && ncmd <= 1 {
			w.blanks(0)
			if ncmd == 1 {
				c := w.hole(size+1, &tblCmd, &tblLetter, &tblCmdEdge)
				st.cmds = append(st.cmds, c)
				w.b.WriteString(c)
				w.blanks(0)
			}
		} else {
			w.eol()
			for k := 0; k < ncmd; k++ {
				w.blanks(0)
				var c string
				if k == 1 {
					// second command carries an interpolation
					// only a body's first command has to start with a letter: a later one may
					// start with any non-blank command byte (./tool, 2to3, -x; seeded change C06c)
					c = w.hole(1, &tblCmdEdge, nil, nil) + " {{.A}} " + w.hole(size, &tblCmd, nil, &tblCmdEdge)
				} else {
					c = w.hole(size+1, &tblCmd, &tblLetter, &tblCmdEdge)
				}
				st.cmds = append(st.cmds, c)
				w.b.WriteString(c)
				w.eol()
			}
			w.blanks(0)
		}
		w.b.WriteString("}")
		w.eol()
	default:
		panic("bad shape " + shape)
	}
	return st
}

func sameArgs(want []c06Arg, got []ast.Node, id string) {
	if len(want) != len(got) {
		sym.Violation(id, "wrong number of elements")
		return
	}
	for i, a := range want {
		switch g := got[i].(type) {
		case ast.Ident:
			if !a.isIdent {
				sym.Violation(id, "string parsed as identifier")
				continue
			}
			sym.Assert(g.Name == a.text, id)
		case ast.String:
			if a.isIdent {
				sym.Violation(id, "identifier parsed as string")
				continue
			}
			sym.Assert(g.Text == a.text, id)
		default:
			sym.Violation(id, "unexpected node kind")
		}
	}
}

// trimBlanks drops the spaces and tabs around a comment's text (the gap after '#' is layout), and
// nothing else: a carriage return left in the text of a CRLF file is a different text. (The
// comparison once used strings.TrimSpace, which hid exactly that: a seeded change that ended
// comments at LF only went unnoticed, DESIGN.md 9.5.)
func trimBlanks(s string) string { return strings.Trim(s, " \t") }

// C06: parsing recovers exactly the structure written, in every admissible layout.
func C06() {
	shapes := strings.Split(sym.ParamStr("shape", "vs"), ";")
	size := sym.ParamInt("size", 1)
	w := &c06{gap: sym.ParamInt("gap", 1), crlf: sym.ParamInt("crlf", 0) == 1, nonASC: sym.ParamInt("nonascii", 0) == 1}
	var want []c06Stmt
	for _, sh := range shapes {
		want = append(want, w.write(sh, size))
	}
	src := w.b.String()
	sym.Observe("src", src)
	tree, err := parser.New(src).Parse()
	if err != nil {
		sym.Observe("error", err.Error())
		sym.Violation("C06/admissible-layout-rejected", "")
		return
	}
	sym.Reach("C06/parsed")
	if len(tree.Nodes) != len(want) {
		sym.Violation("C06/statement-count", "")
		return
	}
	for i, st := range want {
		switch n := tree.Nodes[i].(type) {
		case ast.Comment:
			if st.kind != "comment" {
				sym.Violation("C06/statement-kind", "")
				continue
			}
			sym.Assert(trimBlanks(n.Text) == st.text, "C06/comment-text")
		case ast.Assign:
			switch v := n.Value.(type) {
			case ast.String:
				if st.kind != "string" {
					sym.Violation("C06/statement-kind", "")
					continue
				}
				sym.Assert(n.Name.Name == st.name, "C06/variable-name")
				sym.Assert(v.Text == st.text, "C06/string-value")
			case ast.Function:
				if st.kind != "func" {
					sym.Violation("C06/statement-kind", "")
					continue
				}
				sym.Assert(n.Name.Name == st.name, "C06/variable-name")
				sym.Assert(v.Name.Name == st.text, "C06/function-name")
				sameArgs(st.args, v.Arguments, "C06/function-arguments")
			default:
				sym.Violation("C06/statement-kind", "")
			}
		case ast.Task:
			if st.kind != "task" {
				sym.Violation("C06/statement-kind", "")
				continue
			}
			sym.Assert(n.Name.Name == st.name, "C06/task-name")
			sym.Assert(trimBlanks(n.Docstring.Text) == st.doc, "C06/docstring")
			sameArgs(st.deps, n.Dependencies, "C06/dependencies")
			sameArgs(st.outs, n.Outputs, "C06/outputs")
			if len(n.Commands) != len(st.cmds) {
				sym.Violation("C06/command-count", "")
				continue
			}
			for k := range st.cmds {
				if got := n.Commands[k].Command; len(got) != len(st.cmds[k]) {
					sym.Observe("command", got)
					sig := "C06/command-text"
					if len(got) > len(st.cmds[k]) {
						switch got[len(got)-1] {
						case '\r':
							sig = "C06/command-text/carriage-return-kept"
						case ' ', '\t':
							sig = "C06/command-text/trailing-blank-kept"
						}
					}
					sym.Violation(sig, "length differs")
					continue
				}
				sym.Assert(n.Commands[k].Command == st.cmds[k], "C06/command-text")
			}
		default:
			sym.Violation("C06/statement-kind", "")
		}
	}
}
