package lexh

// Harnesses lists the harness entry points of this package for native playback.
var Harnesses = map[string]func(){
	"C16": C16,
	"C08": C08,
	"C07": C07,
	"C11": C11,
	"C15": C15,
	"C06": C06,
}
