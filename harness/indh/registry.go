package indh

// Harnesses lists the harness entry points of this package for native playback.
var Harnesses = map[string]func(){
	"Step": Step,
}
