// Package indh holds the inductive-step harness of the cache / run state machine: one real
// invocation from an arbitrary state that satisfies the representation invariant, instead of
// a bounded unrolling from the empty project (package runh).
//
// Invariant Inv (what the cache may say, given the ghost "inputs of the last success"):
//
//	for every task t:  cache[t] != ""  =>  t has succeeded, and cache[t] is the digest of the
//	                                       inputs (paths and contents) of its last success
//	(Inv2, needed for C02)  t has file dependencies, has succeeded and did not since fail on
//	                        exactly those inputs  =>  cache[t] is that digest
//	(Inv3, needed for C09)  t failed on exactly those inputs since  =>  cache[t] == ""
//
// The empty project satisfies Inv and Inv2. Step: from any state satisfying them, after any one
// invocation (any edits before it, any request list, --force or not, any exit statuses) the
// step assertions of C01/C02/C14 hold and Inv, Inv2 hold again. By induction the step assertions
// hold after histories of any length made of such invocations (kills are C10's subject and
// break Inv2; removal of the cache resets the ghost and re-establishes the base case).
package indh

import (
	"encoding/json"
	"errors"
	"os"
	"path/filepath"
	"sort"
	"strconv"
	"strings"

	"github.com/FollowTheProcess/spok/ast"
	"github.com/FollowTheProcess/spok/cache"
	"github.com/FollowTheProcess/spok/file"
	"github.com/FollowTheProcess/spok/hash"
	"github.com/FollowTheProcess/spok/iostream"
	"github.com/FollowTheProcess/spok/parser"
	"github.com/FollowTheProcess/spok/shell"
	"github.com/FollowTheProcess/spok/zzverif/refs"
	"github.com/FollowTheProcess/spok/zzverif/stubs"
	"github.com/FollowTheProcess/spok/zzverif/sym"
	"github.com/FollowTheProcess/spok/zzverif/vfs"
)

type nopLogger struct{}

func (nopLogger) Sync() error                      { return nil }
func (nopLogger) Debug(format string, args ...any) {}

var root = "/p"

func setup(spokfile string) func() {
	if sym.Symbolic() {
		vfs.Reset()
		stubs.ResetHash()
		root = "/p"
		vfs.Cwd = root
		vfs.AddDir(root)
		vfs.AddFile(root+"/spokfile", spokfile)
		return func() {}
	}
	dir, err := os.MkdirTemp("", "gosym-ind-")
	if err != nil {
		panic(err)
	}
	dir, _ = filepath.EvalSymlinks(dir)
	root = dir
	os.WriteFile(filepath.Join(root, "spokfile"), []byte(spokfile), 0o644)
	return func() { os.RemoveAll(dir) }
}

func put(rel, content string) {
	if sym.Symbolic() {
		vfs.AddFile(root+"/"+rel, content)
		return
	}
	os.WriteFile(filepath.Join(root, rel), []byte(content), 0o644)
}

func del(rel string) {
	if sym.Symbolic() {
		vfs.Remove(root + "/" + rel)
		return
	}
	os.RemoveAll(filepath.Join(root, rel))
}

func read(abs string) string {
	if sym.Symbolic() {
		if e, ok := vfs.Files[abs]; ok {
			return e.Content
		}
		return ""
	}
	data, _ := os.ReadFile(abs)
	return string(data)
}

func mkdirCache() {
	if sym.Symbolic() {
		vfs.AddDir(root + "/.spok")
		return
	}
	os.MkdirAll(filepath.Join(root, ".spok"), 0o755)
}

// readCache returns the cache file as a map (nil if there is none).
func readCache() map[string]string {
	p := root + "/.spok/cache.json"
	if sym.Symbolic() {
		e, ok := vfs.Files[p]
		if !ok {
			return nil
		}
		m := map[string]string{}
		if err := stubs.JSONUnmarshal([]byte(e.Content), &m); err != nil {
			return nil
		}
		return m
	}
	data, err := os.ReadFile(p)
	if err != nil {
		return nil
	}
	m := map[string]string{}
	if json.Unmarshal(data, &m) != nil {
		return nil
	}
	return m
}

type runner struct {
	n        int
	executed map[string]int
	failed   map[string]bool
	allowErr bool                // the runner itself may fail (an error, not an exit status)
	writes   map[string][]string // task -> files its commands may rewrite (dependencies of later tasks)
	murky    map[string]bool     // tasks that rewrote a dependency of their own: no claim about them (ambiguous "inputs it completed on")
}

var errRunner = errors.New("the shell cannot run this command")

func (r *runner) Run(cmd string, stream iostream.IOStream, task string, env []string) (shell.Result, error) {
	if r.allowErr && sym.Bool("runerr"+strconv.Itoa(r.n)) {
		sym.Reach("Inv/runner-error")
		return shell.Result{}, errRunner
	}
	st := sym.Int("status"+strconv.Itoa(r.n), 0, 1)
	for _, f := range r.writes[task] {
		if sym.Bool("rewrites" + strconv.Itoa(r.n) + "_" + f) {
			put(f, sym.String("written"+strconv.Itoa(r.n)+"_"+f, 1))
			for _, own := range declared[task].Files {
				if own == f {
					r.murky[task] = true
				}
			}
			sym.Reach("Inv/command-rewrote-a-later-task's-input")
		}
	}
	r.n++
	r.executed[task]++
	if st != 0 {
		r.failed[task] = true
	}
	return shell.Result{Cmd: cmd, Status: st}, nil
}

// inputs of a task in the current tree: sorted paths, their contents, and the real digest.
type inputs struct {
	paths    []string
	contents []string
	digest   string
}

// declared is the harness's own reading of the shape; candidates the files a glob may match.
var (
	declared   map[string]refs.Decl
	candidates []string
)

func exists(abs string) bool {
	if sym.Symbolic() {
		return vfs.Exists(abs)
	}
	_, err := os.Stat(abs)
	return err == nil
}

// inputsOf: the paths come from the harness's own reading of the shape (package refs), never from
// sf.Tasks / sf.Globs; the digest is the real hasher's (its determinism is C04's subject).
func inputsOf(tree *parserTree, t string) inputs {
	paths := refs.Inputs(declared[t], root, candidates, exists)
	in := inputs{paths: paths}
	for _, p := range paths {
		in.contents = append(in.contents, read(p))
	}
	for _, p := range paths {
		if !exists(p) {
			return in // a literal dependency is missing: the task can neither run nor be up to date
		}
	}
	if len(paths) > 0 {
		d, err := hash.New().Hash(paths)
		if err != nil {
			panic("hash: " + err.Error())
		}
		in.digest = d
	}
	return in
}

func samePaths(a, b []string) bool {
	if len(a) != len(b) {
		return false
	}
	for i := range a {
		if a[i] != b[i] {
			return false
		}
	}
	return true
}

func sameContents(a, b []string) bool {
	ok := true
	for i := range a {
		ok = sym.And(ok, a[i] == b[i])
	}
	return ok
}

// ghost of one task.
type ghost struct {
	succeeded bool   // the task's commands completed successfully at least once (cache not removed since)
	last      inputs // the inputs of that last success
	// exempt: since that success the task failed on exactly those inputs (sticky until the next
	// success; may be a symbolic boolean). Its digest is then cleared and it must run again (C09).
	exempt bool
	// unknown: in this step the task's own commands rewrote one of its own dependencies
	unknown bool
}

func splitList(s string) []string {
	if s == "" {
		return nil
	}
	return strings.Split(s, ",")
}

type parserTree struct{ t ast.Tree }

// Step: one invocation from an arbitrary invariant-satisfying state.
func Step() {
	text := sym.ParamStr("spokfile", "task A(\"a.txt\") {\n\tcmdA\n}\n")
	files := splitList(sym.ParamStr("files", "a.txt"))
	globfiles := splitList(sym.ParamStr("globfiles", ""))
	var requests [][]string
	for _, r := range strings.Split(sym.ParamStr("requests", "A"), ";") {
		requests = append(requests, splitList(r))
	}
	allowForce := sym.ParamInt("force", 1) == 1
	allowErr := sym.ParamInt("runerr", 0) == 1
	allowMissing := sym.ParamInt("missing", 0) == 1
	cleanup := setup(text)
	defer cleanup()
	parsed, err := parser.New(text).Parse()
	if err != nil {
		panic("harness spokfile does not parse: " + err.Error())
	}
	tree := &parserTree{parsed}
	declared = refs.Declared(text)
	candidates = append(append([]string(nil), files...), globfiles...)
	var names []string
	for n := range declared {
		names = append(names, n)
	}
	sort.Strings(names)

	// ---------------- an arbitrary state satisfying Inv and Inv2 ----------------
	// Each task independently: 0 never succeeded; 1 succeeded on some inputs L and is recorded;
	// 2 succeeded on L, then failed on exactly L (digest cleared). L is a symbolic tree: the
	// literal files with symbolic contents, each glob file present or not.
	gh := map[string]*ghost{}
	pre := cache.New()
	anyEntry := false
	for _, t := range names {
		g := &ghost{}
		gh[t] = g
		kind := sym.Choice("pre_"+t, 3)
		if kind == 0 {
			continue
		}
		for _, f := range files {
			put(f, sym.String("last_"+t+"_"+f, 1))
		}
		for _, f := range globfiles {
			if sym.Bool("lastpresent_" + t + "_" + f) {
				put(f, sym.String("last_"+t+"_"+f, 1))
			} else {
				del(f)
			}
		}
		in := inputsOf(tree, t)
		g.succeeded = true
		g.last = in
		if len(in.paths) == 0 {
			// a task without file dependencies is never recorded
			pre.Set(t, "")
			anyEntry = true
			continue
		}
		if kind == 1 {
			pre.Set(t, in.digest)
		} else {
			pre.Set(t, "")
			g.exempt = true
		}
		anyEntry = true
	}
	// the cache file: absent (spok never ran here / cache removed) only if nothing is recorded
	cacheAbsent := !anyEntry && sym.Bool("cache_absent")
	if !cacheAbsent {
		for _, t := range names {
			if _, ok := pre.Get(t); !ok && sym.Bool("entry_"+t) {
				pre.Set(t, "")
			}
		}
		mkdirCache()
		if err := pre.Dump(root + "/.spok/cache.json"); err != nil {
			panic(err.Error())
		}
	}
	sym.Reach("Inv/pre-state-built")

	// ---------------- the environment edits, then one invocation ----------------
	for _, f := range files {
		if allowMissing && sym.Bool("curabsent_"+f) {
			del(f)
			continue
		}
		put(f, sym.String("cur_"+f, 1))
	}
	for _, f := range globfiles {
		if sym.Bool("curpresent_" + f) {
			put(f, sym.String("cur_"+f, 1))
		} else {
			del(f)
		}
	}
	force := allowForce && sym.Bool("force")
	req := requests[sym.Choice("request", len(requests))]
	writes := map[string][]string{}
	for _, part := range strings.Split(sym.ParamStr("writes", ""), ";") {
		if t, fs, ok := strings.Cut(part, ">"); ok {
			writes[t] = splitList(fs)
		}
	}
	r := &runner{executed: map[string]int{}, failed: map[string]bool{}, allowErr: allowErr, writes: writes, murky: map[string]bool{}}
	sf, err := file.New(parsed, root, nopLogger{})
	if err != nil {
		panic(err.Error())
	}
	results, rerr := sf.Run(iostream.Null(), r, force, req...)
	if rerr != nil {
		sym.Observe("error", true)
		if !allowErr && !allowMissing {
			sym.Violation("Ind/run-returned-an-error", rerr.Error())
			return
		}
		// The run stopped part-way (the runner could not run a command, or a task's files could
		// not be hashed). No results are returned; what the tasks that did complete recorded
		// must still satisfy the invariant. A task completed if all its commands returned.
		sym.Reach("Inv/step-stopped-with-an-error")
		for _, t := range names {
			if r.executed[t] == 0 {
				continue
			}
			if r.murky[t] {
				gh[t].unknown = true
				continue
			}
			cur := inputsOf(tree, t)
			g := gh[t]
			switch {
			case r.failed[t]:
				if g.succeeded && samePaths(cur.paths, g.last.paths) {
					g.exempt = sym.Or(g.exempt, sameContents(cur.contents, g.last.contents))
				}
			case r.executed[t] == declared[t].Commands:
				g.succeeded = true
				g.last = cur
				g.exempt = false
			}
		}
		checkInvariant(names, gh, force)
		return
	}
	sym.Reach("Inv/step-done")

	// ---------------- step assertions (as in the history harness) ----------------
	for _, res := range results {
		t := res.Task
		if r.murky[t] {
			continue
		}
		cur := inputsOf(tree, t)
		g := gh[t]
		ncmd := declared[t].Commands
		if force {
			sym.Assert(!res.Skipped, "C14/skipped-under-force")
			sym.Assert(r.executed[t] == ncmd, "C14/commands-not-run-under-force")
		}
		if res.Skipped {
			sym.Assert(r.executed[t] == 0, "C02/skipped-task-ran-commands")
			sym.Assert(len(cur.paths) > 0, "C02/task-without-file-dependency-skipped")
			if !g.succeeded || !samePaths(cur.paths, g.last.paths) {
				sym.Violation("C01/inductive-step/skipped-but-never-succeeded-or-path-set-changed", t)
				return
			}
			sym.Assert(sameContents(cur.contents, g.last.contents), "C01/inductive-step/skipped-although-inputs-differ-from-last-success")
			// a task that failed on the inputs of its last success is not up to date on them
			sym.Assert(!g.exempt, "C09/inductive-step/failed-task-skipped")
		} else if !force && len(cur.paths) > 0 && g.succeeded && samePaths(cur.paths, g.last.paths) {
			differs := sym.Or(!sameContents(cur.contents, g.last.contents), g.exempt)
			sym.Assert(differs, "C02/inductive-step/rerun-although-unchanged")
		}
	}
	// ---------------- ghost update ----------------
	for _, res := range results {
		t := res.Task
		if res.Skipped {
			continue
		}
		if r.murky[t] {
			gh[t].unknown = true
			continue
		}
		cur := inputsOf(tree, t)
		g := gh[t]
		if r.failed[t] {
			if g.succeeded && samePaths(cur.paths, g.last.paths) {
				g.exempt = sym.Or(g.exempt, sameContents(cur.contents, g.last.contents))
			}
		} else {
			g.succeeded = true
			g.last = cur
			g.exempt = false
		}
	}
	checkInvariant(names, gh, force)
}

// checkInvariant: the representation invariant on the post-state.
func checkInvariant(names []string, gh map[string]*ghost, forced bool) {
	post := readCache()
	if post == nil {
		sym.Violation("Ind/no-readable-cache-after-a-run", "")
		return
	}
	for _, t := range names {
		g := gh[t]
		c := post[t]
		if g.unknown {
			continue
		}
		if c != "" {
			// Inv: a recorded digest describes the inputs of the last success
			id := "C01/invariant-not-preserved/recorded-digest-is-not-that-of-the-last-success"
			if forced {
				// C14, second sentence: a forced run does not damage the cache
				id = "C14/a-forced-run-damaged-the-cache/recorded-digest-is-not-that-of-the-last-success"
			}
			sym.Assert(g.succeeded && len(g.last.paths) > 0 && c == g.last.digest, id)
		}
		if g.succeeded && len(g.last.paths) > 0 {
			// Inv2: every success that was not followed by a failure on the same inputs is recorded
			sym.Assert(sym.Or(g.exempt, c == g.last.digest), "C02/invariant-not-preserved/success-not-recorded")
			// Inv3: after a failure on the inputs of the last success nothing is recorded
			sym.Assert(sym.Or(!g.exempt, c == ""), "C09/invariant-not-preserved/digest-kept-after-failing-on-the-recorded-inputs")
		}
	}
}
