package indh

import (
	"testing"

	"github.com/FollowTheProcess/spok/zzverif/native"
)

func TestNativePlayback(t *testing.T) {
	if err := native.Run(Harnesses); err != nil {
		t.Fatal(err)
	}
}
