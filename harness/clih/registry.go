package clih

// Harnesses lists the harness entry points of this package for native playback.
var Harnesses = map[string]func(){
	"EnvPrecedence": EnvPrecedence,
	"Vars":          Vars,
	"Exec":          Exec,
	"AppSmoke":      AppSmoke,
	"TabSmoke":      TabSmoke,
	"Cli":           Cli,
	"Main":          Main,
	"CliRepeat":     CliRepeat,
	"Clean":         Clean,
}
