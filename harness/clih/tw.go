package clih

import (
	"bytes"
	"fmt"

	"github.com/FollowTheProcess/spok/zzverif/sym"
	"github.com/juju/ansiterm/tabwriter"
)

// TabSmoke exercises the third-party tab writer alone (engine validation).
func TabSmoke() {
	var buf bytes.Buffer
	w := tabwriter.NewWriter(&buf, 0, 8, 1, '\t', tabwriter.AlignRight)
	fmt.Fprintln(w, "a\tb")
	w.Flush()
	sym.Observe("out", buf.String())
}
