package clih

import (
	"bytes"

	"github.com/FollowTheProcess/spok/cli/app"
	"github.com/FollowTheProcess/spok/iostream"
	"github.com/FollowTheProcess/spok/zzverif/stubs"
	"github.com/FollowTheProcess/spok/zzverif/sym"
	"github.com/FollowTheProcess/spok/zzverif/vfs"
	"mvdan.cc/sh/v3/expand"
)

// AppSmoke runs the real App.Run on a small project (used to validate the engine on cli/app).
func AppSmoke() {
	root, cleanup := projectDir()
	defer cleanup()
	src := "# say hi\ntask hi() {\n\techo hi\n}\n\nV := \"1\"\n"
	if sym.Symbolic() {
		vfs.AddFile(root+"/spokfile", src)
		vfs.Home = "/"
		stubs.ShellHook = func(cmd string, env expand.Environ) (string, string, int) { return "hi\n", "", 0 }
	}
	out, errw := &bytes.Buffer{}, &bytes.Buffer{}
	a := app.New(iostream.IOStream{Stdout: out, Stderr: errw})
	switch sym.ParamInt("mode", 0) {
	case 1:
		a.Options.Show = true
	case 2:
		a.Options.Variables = true
	case 3:
		a.Options.JSON = true
	case 4:
		a.Options.Fmt = true
	case 5:
		a.Options.Clean = true
	}
	var tasks []string
	if sym.ParamInt("mode", 0) == 0 || sym.ParamInt("mode", 0) == 3 {
		tasks = []string{"hi"}
	}
	err := a.Run(tasks)
	sym.Observe("err", err != nil)
	if err != nil {
		sym.Observe("errtext", err.Error())
	}
	sym.Observe("stdout", out.String())
	sym.Observe("process-stdout", sym.Stdout())
	sym.Reach("returned")
}
