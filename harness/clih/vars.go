package clih

import (
	"fmt"
	"os"
	"path"
	"path/filepath"
	"strconv"
	"strings"
	"unicode"

	"github.com/FollowTheProcess/spok/file"
	"github.com/FollowTheProcess/spok/iostream"
	"github.com/FollowTheProcess/spok/parser"
	"github.com/FollowTheProcess/spok/shell"
	"github.com/FollowTheProcess/spok/zzverif/stubs"
	"github.com/FollowTheProcess/spok/zzverif/sym"
	"github.com/FollowTheProcess/spok/zzverif/vfs"
	"mvdan.cc/sh/v3/expand"
)

type nopLogger struct{}

func (nopLogger) Sync() error                      { return nil }
func (nopLogger) Debug(format string, args ...any) {}

// recRunner records the command texts that reach the shell.
type recRunner struct {
	cmds []string
	env  []string // the environment handed over with the last command
}

func (r *recRunner) Run(cmd string, stream iostream.IOStream, task string, env []string) (shell.Result, error) {
	r.cmds = append(r.cmds, cmd)
	r.env = append([]string{}, env...)
	return shell.Result{Cmd: cmd}, nil
}

// projectDir prepares an empty project directory: in the engine's file system, or a real
// temporary directory for the native replay (the process changes into it).
func projectDir() (root string, cleanup func()) {
	if sym.Symbolic() {
		vfs.Reset()
		stubs.ResetShell()
		stubs.ResetHash()
		vfs.AddDir("/p")
		vfs.Cwd = "/p"
		vfs.Env = []string{"PATH=/bin", "HOME=/home"}
		return "/p", func() {}
	}
	dir, err := os.MkdirTemp("", "gosym-cli-")
	if err != nil {
		panic(err)
	}
	dir, _ = filepath.EvalSymlinks(dir)
	old, _ := os.Getwd()
	os.Chdir(dir)
	return dir, func() { os.Chdir(old); os.RemoveAll(dir) }
}

// string-literal bytes: anything but '"', LF, CR; kept printable so that the native shell
// and template engine see them unchanged ('{' and '}' excluded: template syntax)
var tblValueByte [256]bool

func init() {
	for c := 0x20; c < 0x7f; c++ {
		switch byte(c) {
		case '"', '{', '}':
		default:
			tblValueByte[c] = true
		}
	}
	// literal command text: the admissible command alphabet (as in C06) has no '#' either,
	// and the native shell must see one word: no blanks, quotes or shell metacharacters
	for c := 0x21; c < 0x7f; c++ {
		switch byte(c) {
		case '"', '{', '}', '#', '\'', '$', '\\', '`', ';', '&', '|', '<', '>', '(', ')', '*', '?', '[', ']', '~', '!':
		default:
			tblLiteralByte[c] = true
		}
	}
}

var tblLiteralByte [256]bool

func literalHole(name string, n int) string {
	s := sym.String(name, n)
	for i := 0; i < len(s); i++ {
		sym.Assume(tblLiteralByte[s[i]])
	}
	return s
}

func valueHole(name string, n int) string {
	s := sym.String(name, n)
	for i := 0; i < len(s); i++ {
		sym.Assume(tblValueByte[s[i]])
	}
	return s
}

// Vars: variables reach commands with their spokfile value (C13: value, template and builtin
// clauses; the environment clause is EnvPrecedence).
//
// The spokfile defines  EARLY := "<hole>"  J := join("<a>", "<b>")  then a task whose command
// mixes literal text with {{.EARLY}}, {{.J}} and {{.LATE}}, then  LATE := "<hole>".
func Vars() {
	size := sym.ParamInt("size", 2)
	root, cleanup := projectDir()
	defer cleanup()
	// the value may be empty: an empty variable is still a variable (a seeded change that left
	// empty variables out of the environment let an ambient namesake show through, DESIGN.md 9.5)
	early := valueHole("early", sym.Choice("earlylen", size+1))
	late := valueHole("late", 1)
	ja, jb := "out", "bin"
	lit1, lit2 := literalHole("lit1", 1), literalHole("lit2", 1)
	src := "EARLY := \"" + early + "\"\n" +
		"J := join(\"" + ja + "\", \"" + jb + "\")\n" +
		"task t() {\n\techo " + lit1 + "{{.EARLY}}" + lit2 + " {{.J}} {{.LATE}}end\n}\n" +
		"LATE := \"" + late + "\"\n"
	sym.Observe("src", src)
	tree, err := parser.New(src).Parse()
	if err != nil {
		sym.Observe("error", err.Error())
		sym.Violation("C13/spokfile-rejected", "")
		return
	}
	sf, err := file.New(tree, root, nopLogger{})
	if err != nil {
		sym.Observe("error", err.Error())
		sym.Violation("C13/spokfile-rejected", "")
		return
	}
	sym.Reach("C13/loaded")
	// a string variable's value is exactly the text between its quotes
	sym.Assert(len(sf.Vars["EARLY"]) == len(early) && sf.Vars["EARLY"] == early, "C13/string-value-not-verbatim")
	sym.Assert(sf.Vars["LATE"] == late, "C13/string-value-not-verbatim")
	// join(...) is the absolute cleaned join of its arguments
	wantJoin := path.Clean(root + "/" + ja + "/" + jb)
	sym.Assert(sf.Vars["J"] == wantJoin, "C13/join-is-not-the-absolute-cleaned-join")
	// the command that reaches the shell: earlier variables substituted, other text unchanged
	r := &recRunner{}
	if _, err := sf.Run(iostream.Null(), r, true, "t"); err != nil || len(r.cmds) != 1 {
		sym.Violation("C13/command-did-not-run", "")
		return
	}
	// every variable is handed to the runner as NAME=value (what the runner does with an ambient
	// namesake is EnvPrecedence's subject)
	for _, kv := range [][2]string{{"EARLY", early}, {"LATE", late}, {"J", wantJoin}} {
		n := 0
		for _, e := range r.env {
			if strings.HasPrefix(e, kv[0]+"=") {
				n++
				sym.Assert(e[len(kv[0])+1:] == kv[1], "C13/variable-exported-with-another-value")
			}
		}
		sym.Assert(n == 1, "C13/variable-not-in-the-command-environment")
	}
	prefix := "echo " + lit1 + early + lit2 + " " + wantJoin + " "
	got := r.cmds[0]
	// observed without the absolute project path (it differs between the engine's file system
	// and the temporary directory of a native replay)
	head := "echo " + lit1 + early + lit2 + " "
	if len(got) >= len(prefix) {
		sym.Observe("command-head", got[:len(head)])
		sym.Observe("command-tail", got[len(prefix):])
	}
	if len(got) < len(prefix)+3 {
		sym.Violation("C13/template-substitution-wrong", "command too short")
		return
	}
	sym.Assert(got[:len(prefix)] == prefix, "C13/template-substitution-wrong")
	// LATE is defined after the task: the property does not say what its reference becomes
	// (the template engine prints "<no value>"), only that the surrounding text is unchanged
	sym.Assert(strings.HasSuffix(got, "end"), "C13/template-substitution-wrong")
}

func isSpaceByteRef(b byte) bool {
	return unicode.IsSpace(rune(b))
}

// Exec: exec(...) is the command's standard output with surrounding whitespace trimmed, and a
// failing exec is an error (C13, exec clause). The command's output is symbolic.
func Exec() {
	n := sym.ParamInt("size", 3)
	root, cleanup := projectDir()
	defer cleanup()
	out := sym.String("stdout", n)
	for i := 0; i < len(out); i++ {
		sym.Assume(out[i] < 0x80 && out[i] != 0) // ASCII output (the native replay prints it with printf)
	}
	status := sym.Int("status", 0, 2)
	cmd := "produce"
	if sym.Symbolic() {
		stubs.ShellHook = func(c string, env expand.Environ) (string, string, int) {
			return out, "", status
		}
	} else {
		// printf with octal escapes prints exactly the bytes, then the status
		var b strings.Builder
		b.WriteString("printf '")
		for i := 0; i < len(out); i++ {
			b.WriteString(fmt.Sprintf("\\%03o", out[i]))
		}
		b.WriteString("'; exit " + strconv.Itoa(status))
		cmd = b.String()
	}
	src := "V := exec(\"" + cmd + "\")\n"
	tree, err := parser.New(src).Parse()
	if err != nil {
		sym.Violation("C13/spokfile-rejected", "")
		return
	}
	sf, err := file.New(tree, root, nopLogger{})
	sym.Observe("stdout", out)
	sym.Observe("status", status)
	if status != 0 {
		sym.Reach("C13/exec-failed")
		sym.Assert(err != nil, "C13/failing-exec-is-not-an-error")
		return
	}
	if err != nil {
		sym.Observe("error", err.Error())
		sym.Violation("C13/exec-rejected", "")
		return
	}
	sym.Reach("C13/exec-ok")
	// reference trim: drop leading and trailing white space bytes
	lo, hi := 0, len(out)
	for lo < hi && isSpaceByteRef(out[lo]) {
		lo++
	}
	for hi > lo && isSpaceByteRef(out[hi-1]) {
		hi--
	}
	want := out[lo:hi]
	got := sf.Vars["V"]
	sym.Observe("value", got)
	if len(got) != len(want) {
		sym.Violation("C13/exec-value-not-the-trimmed-stdout", "")
		return
	}
	sym.Assert(got == want, "C13/exec-value-not-the-trimmed-stdout")
}
