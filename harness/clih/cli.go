package clih

import (
	"bytes"
	"encoding/json"
	"fmt"
	"io"
	"os"
	"path/filepath"
	"sort"
	"strconv"
	"strings"

	"github.com/FollowTheProcess/spok/cli/app"
	"github.com/FollowTheProcess/spok/iostream"
	"github.com/FollowTheProcess/spok/task"
	"github.com/FollowTheProcess/spok/zzverif/stubs"
	"github.com/FollowTheProcess/spok/zzverif/sym"
	"github.com/FollowTheProcess/spok/zzverif/vfs"
	"mvdan.cc/sh/v3/expand"
)

// The exit statuses a command may return: representatives of 0, small, the sign bit and the top.
var statusPool = []int{0, 1, 2, 128, 255}

// cliProject is the sandbox: HOME/proj holds the spokfile; the process may run from proj or
// from proj/sub.
type cliProject struct {
	home, root, cwd string
}

func (p *cliProject) put(rel, content string) {
	if sym.Symbolic() {
		vfs.AddFile(p.home+"/"+rel, content)
		return
	}
	full := filepath.Join(p.home, rel)
	os.MkdirAll(filepath.Dir(full), 0o755)
	os.WriteFile(full, []byte(content), 0o644)
}

func (p *cliProject) mkdir(rel string) {
	if sym.Symbolic() {
		vfs.AddDir(p.home + "/" + rel)
		return
	}
	os.MkdirAll(filepath.Join(p.home, rel), 0o755)
}

// snapshot returns path (relative to HOME) -> content ("<dir>" for directories).
func (p *cliProject) snapshot() map[string]string {
	out := map[string]string{}
	if sym.Symbolic() {
		for path, e := range vfs.Files {
			if !strings.HasPrefix(path, p.home+"/") {
				continue
			}
			rel := strings.TrimPrefix(path, p.home+"/")
			if e.Dir {
				out[rel] = "<dir>"
			} else {
				out[rel] = "f:" + e.Content
			}
		}
		return out
	}
	filepath.Walk(p.home, func(path string, info os.FileInfo, err error) error {
		if err != nil || path == p.home {
			return nil
		}
		rel, _ := filepath.Rel(p.home, path)
		if info.IsDir() {
			out[rel] = "<dir>"
		} else {
			data, _ := os.ReadFile(path)
			out[rel] = "f:" + string(data)
		}
		return nil
	})
	return out
}

// changed lists the paths created, modified or deleted between two snapshots.
func changed(before, after map[string]string) []string {
	var out []string
	for p, c := range after {
		if b, ok := before[p]; !ok || b != c {
			out = append(out, p)
		}
	}
	for p := range before {
		if _, ok := after[p]; !ok {
			out = append(out, p)
		}
	}
	sort.Strings(out)
	return out
}

func newCliProject() (*cliProject, func()) {
	if sym.Symbolic() {
		vfs.Reset()
		stubs.ResetShell()
		stubs.ResetHash()
		p := &cliProject{home: "/home/u", root: "/home/u/proj"}
		vfs.AddDir(p.root + "/sub")
		vfs.Home = p.home
		vfs.Env = []string{"PATH=/bin", "HOME=" + p.home}
		os.Stdin, os.Stdout, os.Stderr = vfs.StdStreams()
		return p, func() {}
	}
	dir, err := os.MkdirTemp("", "gosym-cli-")
	if err != nil {
		panic(err)
	}
	dir, _ = filepath.EvalSymlinks(dir)
	// HOME sits three levels below the temporary directory so that outputs climbing out of the
	// project with ".." still land inside it (see nativeSafeOutput in clean.go)
	home := dir + "/x/y/home"
	p := &cliProject{home: home, root: home + "/proj"}
	os.MkdirAll(p.root+"/sub", 0o755)
	oldHome, oldWd := os.Getenv("HOME"), ""
	oldWd, _ = os.Getwd()
	os.Setenv("HOME", home)
	return p, func() { os.Chdir(oldWd); os.Setenv("HOME", oldHome); os.RemoveAll(dir) }
}

func (p *cliProject) chdir(dir string) {
	p.cwd = dir
	if sym.Symbolic() {
		vfs.Cwd = dir
		return
	}
	os.Chdir(dir)
}

// command text: under the engine the shell model decides what "cmdX" does; natively the text
// is real shell that prints the same markers and exits with the same status.
func cmdText(name string, status int) string {
	if sym.Symbolic() {
		return name
	}
	return "echo 'out 100% of " + name + "'; echo 'err 5%s " + name + "' >&2; exit " + strconv.Itoa(status)
}

// What a command prints: the markers carry '%' (text that must never be taken for a format
// string: a seeded change printed the JSON report with Fprintf(text), DESIGN.md 9.5).
func outMark(name string) string { return "out 100% of " + name + "\n" }
func errMark(name string) string { return "err 5%s " + name + "\n" }

type cmdSpec struct {
	task, name string
	status     int
}

// captureStdout runs f with the process's standard output captured (native replay only).
func captureStdout(f func()) string {
	if sym.Symbolic() {
		// what reaches the process's standard output: through fmt.Print* (the engine's capture)
		// and through writes to os.Stdout (a file of the model); this call's share of both
		a, b := len(sym.Stdout()), len(vfs.StdoutText())
		f()
		return sym.Stdout()[a:] + vfs.StdoutText()[b:]
	}
	r, w, err := os.Pipe()
	if err != nil {
		panic(err)
	}
	old := os.Stdout
	os.Stdout = w
	done := make(chan string)
	go func() {
		data, _ := io.ReadAll(r)
		done <- string(data)
	}()
	func() {
		defer func() { os.Stdout = old; w.Close() }()
		f()
	}()
	return <-done
}

// CliRepeat: over a first and a repeated run the report lists a skipped task as skipped, with
// no command results, and the invocation succeeds (C20, repeated-run clause).
func CliRepeat() {
	p, cleanup := newCliProject()
	defer cleanup()
	// optionally a first task without file dependencies that runs every time, before a: the
	// skipped task's entry must not carry anything of the task reported before it (a seeded
	// change that declared the per-task results outside the loop went unnoticed, DESIGN.md 9.5)
	withPrep := sym.Bool("with_prep")
	text := "task a(\"data.txt\") {\n\t" + cmdText("cmdA1", 0) + "\n}\n"
	if withPrep {
		text = "task prep() {\n\t" + cmdText("cmdP", 0) + "\n}\ntask a(prep, \"data.txt\") {\n\t" + cmdText("cmdA1", 0) + "\n}\n"
	}
	p.put("proj/spokfile", text)
	p.put("proj/data.txt", "data")
	p.chdir(p.root)
	if sym.Symbolic() {
		stubs.ShellHook = func(cmd string, env expand.Environ) (string, string, int) {
			return outMark(cmd), errMark(cmd), 0
		}
	}
	edit := sym.Bool("edit_between_runs")
	for round := 0; round < 2; round++ {
		if round == 1 && edit {
			p.put("proj/data.txt", "changed")
		}
		if sym.Symbolic() {
			stubs.JSONValues, stubs.JSONTexts = nil, nil
		}
		a := app.New(iostream.IOStream{Stdout: &bytes.Buffer{}, Stderr: &bytes.Buffer{}})
		a.Options.JSON = true
		var err error
		procOut := captureStdout(func() { err = a.Run([]string{"a"}) })
		if sym.Symbolic() {
			// the capture accumulates over the path: keep this round's part
			if i := strings.LastIndex(strings.TrimRight(procOut, "\n"), "\n"); i >= 0 {
				procOut = procOut[i+1:]
			}
		}
		if err != nil {
			sym.Violation("C20/repeated-run-failed", err.Error())
			return
		}
		wantSkipped := round == 1 && !edit
		if !wantSkipped {
			if withPrep {
				checkJSON(procOut, []cmdSpec{{"prep", "cmdP", 0}, {"a", "cmdA1", 0}})
			} else {
				checkJSON(procOut, []cmdSpec{{"a", "cmdA1", 0}})
			}
			continue
		}
		sym.Reach("C20/skipped-in-report")
		var got []jsonTask
		if sym.Symbolic() {
			if len(stubs.JSONValues) != 1 {
				sym.Violation("C20/json-report-wrong", "not exactly one document")
				return
			}
			res, _ := stubs.JSONValues[0].(task.Results)
			for _, r := range res {
				jt := jsonTask{Task: r.Task, Skipped: r.Skipped}
				for _, c := range r.CommandResults {
					jt.Results = append(jt.Results, jsonCmd{c.Cmd, c.Stdout, c.Stderr, c.Status})
				}
				got = append(got, jt)
			}
		} else if err := json.Unmarshal([]byte(procOut), &got); err != nil {
			sym.Violation("C20/json-report-wrong", "not a JSON document: "+err.Error())
			return
		}
		if withPrep {
			// prep ran (it has nothing to be up to date with), then a was skipped
			if len(got) != 2 {
				sym.Violation("C20/skipped-task-missing-from-or-wrong-in-the-report", "wrong number of tasks")
				return
			}
			ok := got[0].Task == "prep" && !got[0].Skipped && len(got[0].Results) == 1
			sym.Assert(ok, "C20/json-report-wrong")
			if ok {
				c := got[0].Results[0]
				sym.Assert(c.Cmd == cmdText("cmdP", 0) && c.Stdout == outMark("cmdP") && c.Stderr == errMark("cmdP") && c.Status == 0, "C20/json-report-wrong")
			}
			sym.Observe("skipped-entry-commands", len(got[1].Results))
			sym.Assert(got[1].Task == "a" && got[1].Skipped, "C20/skipped-task-missing-from-or-wrong-in-the-report")
			sym.Assert(len(got[1].Results) == 0, "C20/skipped-task-reported-with-commands-it-did-not-run")
			continue
		}
		ok := len(got) == 1 && got[0].Task == "a" && got[0].Skipped && len(got[0].Results) == 0
		sym.Assert(ok, "C20/skipped-task-missing-from-or-wrong-in-the-report")
	}
}

// Cli runs one invocation of the real App.Run on a symbolic configuration and states the
// clauses of C09 (failing command), C19 (what spok writes) and C20 (reports and listings).
//
// Parameters: family = "actions" (every flag combination on valid/invalid/absent spokfiles,
// commands succeed) or "run" (valid spokfile, run-related flags, symbolic statuses).
func Cli() {
	family := sym.ParamStr("family", "run")
	p, cleanup := newCliProject()
	defer cleanup()

	// ---- the spokfile
	variant := "valid"
	hasDefault := false
	if family == "actions" {
		variant = []string{"valid", "syntax-error", "duplicate-task", "absent"}[sym.Choice("spokfile", 4)]
	} else {
		hasDefault = sym.Bool("has_default")
	}
	specs := []cmdSpec{{"a", "cmdA1", 0}, {"a", "cmdA2", 0}, {"b", "cmdB", 0}}
	if hasDefault {
		specs = append(specs, cmdSpec{"default", "cmdD", 0})
	}
	if family == "run" {
		for i := range specs {
			specs[i].status = statusPool[sym.Choice("status_"+specs[i].name, len(statusPool))]
		}
	}
	// definitions are written in an order that is NOT the sorted one (W before V; default, b, a):
	// the engine's maps iterate in insertion order, so a listing that forgot to sort would
	// otherwise still come out sorted
	text := "W := \"two\"\nV := \"val\"\n"
	if hasDefault {
		text += "# the default\ntask default() {\n\t" + cmdText("cmdD", specs[3].status) + "\n}\n\n"
	}
	text += "task b(a) {\n\t" + cmdText("cmdB", specs[2].status) + "\n}\n\n# doc of a\ntask a() {\n\t" + cmdText("cmdA1", specs[0].status) + "\n\t" + cmdText("cmdA2", specs[1].status) + "\n}\n"
	switch variant {
	case "syntax-error":
		text = "task a( {\n"
	case "duplicate-task":
		text = "task a() {\n\tcmdA1\n}\ntask a() {\n\tcmdA2\n}\n"
	}
	if variant != "absent" {
		p.put("proj/spokfile", text)
	}
	hadGitignore := false
	if family == "actions" {
		if sym.Bool("has_gitignore") {
			hadGitignore = true
			p.put("proj/.gitignore", "node_modules\n")
		}
		if sym.Bool("has_cache") {
			p.mkdir("proj/.spok")
			p.put("proj/.spok/other", "keep")
		}
	}
	p.put("proj/data.txt", "data")
	p.put("proj/sub/inner.txt", "inner")
	nested := sym.Bool("cwd_nested")
	if nested {
		p.chdir(p.root + "/sub")
	} else {
		p.chdir(p.root)
	}
	if sym.Symbolic() {
		stubs.ShellHook = func(cmd string, env expand.Environ) (string, string, int) {
			for _, s := range specs {
				if s.name == cmd {
					return outMark(cmd), errMark(cmd), s.status
				}
			}
			return "", "", 0
		}
	}

	// ---- options and task names
	out, errw := &bytes.Buffer{}, &bytes.Buffer{}
	a := app.New(iostream.IOStream{Stdout: out, Stderr: errw})
	o := a.Options
	o.Quiet, o.JSON, o.Force = sym.Bool("quiet"), sym.Bool("json"), sym.Bool("force")
	if family == "actions" {
		o.Init, o.Fmt, o.Variables, o.Show, o.Debug = sym.Bool("init"), sym.Bool("fmt"), sym.Bool("vars"), sym.Bool("show"), sym.Bool("debug")
	}
	if family == "actions" && o.Init && hadGitignore {
		// what --init appends to: LF, CRLF, no final newline, empty - in the directory it acts
		// in (a seeded change re-wrote the file line by line and lost the carriage returns; the
		// one fixed LF content let it through, DESIGN.md 9.5)
		contents := []string{"node_modules\n", "node_modules\r\n*.log\r\n", "node_modules", ""}
		target := "proj/.gitignore"
		if nested {
			target = "proj/sub/.gitignore"
		}
		p.put(target, contents[sym.Choice("gitignore_content", len(contents))])
	}
	taskLists := [][]string{{}, {"a"}, {"b"}, {"a", "b"}, {"nosuch"}}
	if family == "actions" {
		taskLists = [][]string{{}, {"a"}}
	}
	tasks := taskLists[sym.Choice("tasks", len(taskLists))]
	sym.Observe("config", fmt.Sprintf("spokfile=%s default=%v nested=%v init=%v fmt=%v vars=%v show=%v quiet=%v json=%v force=%v debug=%v tasks=%v", variant, hasDefault, nested, o.Init, o.Fmt, o.Variables, o.Show, o.Quiet, o.JSON, o.Force, o.Debug, tasks))

	before := p.snapshot()
	var err error
	procOut := captureStdout(func() { err = a.Run(tasks) })
	after := p.snapshot()
	sym.Reach("Cli/returned")
	sym.Observe("error", err != nil)
	diff := changed(before, after)
	sym.Observe("changed", strings.Join(diff, " "))

	// ---- what the invocation is (mirrors the documented precedence of the flags)
	action := "run"
	switch {
	case o.Init:
		action = "init"
	case o.Quiet && o.Debug:
		action = "usage-error"
	case variant != "valid":
		action = "load-error"
	case o.Fmt:
		action = "fmt"
	case o.Variables:
		action = "vars"
	case o.Show:
		action = "show"
	case len(tasks) == 0 && !hasDefault:
		action = "list"
	}
	if action == "run" && len(tasks) == 0 {
		tasks = []string{"default"}
	}
	sym.Observe("action", action)

	// ================= C19: spok writes only where the chosen action says it may =================
	cwdRel := "proj"
	if nested {
		cwdRel = "proj/sub"
	}
	if len(diff) > 0 {
		sym.Reach("C19/changed-something/" + action)
	} else {
		sym.Reach("C19/changed-nothing/" + action)
	}
	for _, path := range diff {
		ok := false
		switch action {
		case "init":
			// creates cwd/spokfile (only when absent) and appends to cwd/.gitignore
			if path == cwdRel+"/spokfile" {
				_, existed := before[path]
				ok = !existed
				if existed {
					sym.Violation("C19/init-overwrote-an-existing-spokfile", path)
					return
				}
			}
			if path == cwdRel+"/.gitignore" {
				old, existed := before[path]
				ok = !existed || strings.HasPrefix(after[path], old)
				if !ok {
					sym.Violation("C19/init-did-not-append-to-gitignore", path)
					return
				}
			}
		case "fmt":
			ok = path == "proj/spokfile"
		case "run":
			ok = path == "proj/.spok" || strings.HasPrefix(path, "proj/.spok/")
			if path == "proj/.spok/other" {
				ok = false
			}
		}
		sym.Observe("offending-path", path)
		sym.Assert(ok, "C19/wrote-outside-what-the-action-allows/"+action)
		if !ok {
			return
		}
	}
	if action == "fmt" && err == nil {
		// the harness's spokfile is not in canonical form, so a successful --fmt must rewrite it
		sym.Assert(len(diff) == 1, "C19/fmt-did-not-rewrite-the-spokfile")
	}
	if action == "init" && err == nil {
		sym.Assert(after[cwdRel+"/spokfile"] != "", "C19/init-did-not-create-the-spokfile")
	}
	_ = hadGitignore

	// ================= C09: a failing command fails the invocation =================
	var ran []cmdSpec // commands that must have been executed, in order
	if action == "run" && !(len(tasks) == 1 && tasks[0] == "nosuch") {
		order := map[string]bool{}
		var sel []string
		add := func(t string) {
			if !order[t] {
				order[t] = true
				sel = append(sel, t)
			}
		}
		for _, t := range tasks {
			if t == "b" {
				add("a") // b depends on a
			}
			add(t)
		}
		// execution order: dependencies first; otherwise any order the sort picks, which
		// the results themselves report, so only membership is fixed here
		for _, t := range sel {
			for _, s := range specs {
				if s.task == t {
					ran = append(ran, s)
				}
			}
		}
	}
	failingTask := ""
	for _, s := range ran {
		if s.status != 0 && failingTask == "" {
			failingTask = s.task
		}
	}
	if action == "run" && len(ran) > 0 {
		sym.Reach("C09/commands-ran")
		anyFail := false
		for _, s := range ran {
			if s.status != 0 {
				anyFail = true
			}
		}
		if anyFail {
			sym.Assert(err != nil, "C09/failing-command-did-not-fail-the-invocation")
			if err != nil {
				// the error names a task that really has a failing command
				named := false
				for _, s := range ran {
					if s.status != 0 && strings.Contains(err.Error(), "task \""+s.task+"\"") {
						named = true
					}
				}
				sym.Assert(named, "C09/error-does-not-name-the-failing-task")
			}
		} else {
			sym.Assert(err == nil, "C09/invocation-failed-although-every-command-succeeded")
		}
	}

	// ================= C20: reports and listings =================
	stdout := out.String()
	switch {
	case action == "run" && len(ran) > 0 && o.JSON && failingTask == "":
		sym.Reach("C20/json")
		sym.Assert(stdout == "", "C20/json-run-also-printed-to-the-stream")
		checkJSON(procOut, ran)
	case action == "run" && len(ran) > 0 && o.Quiet && !o.JSON:
		sym.Reach("C20/quiet")
		sym.Assert(stdout == "" && procOut == "", "C20/quiet-run-printed-output")
	case action == "show" || action == "list":
		sym.Reach("C20/listing")
		if !o.Quiet && !o.JSON {
			names := []string{"a", "b"}
			docs := map[string]string{"a": "doc of a", "b": ""}
			if hasDefault {
				names = append(names, "default")
				docs["default"] = "the default"
			}
			checkRows(stdout, names, docs, "C20/task-listing-wrong")
		}
	case action == "vars":
		sym.Reach("C20/vars")
		if !o.Quiet && !o.JSON {
			checkRows(stdout, []string{"V", "W"}, map[string]string{"V": "val", "W": "two"}, "C20/variable-listing-wrong")
		}
	}
}

// checkRows checks a two-column listing: after the header, one row per name, sorted, with its
// second column (tab alignment and colours are outside the claim: cells are trimmed).
func checkRows(text string, names []string, second map[string]string, id string) {
	lines := strings.Split(strings.TrimRight(text, "\n"), "\n")
	if len(lines) < 2 {
		sym.Violation(id, "no listing")
		return
	}
	rows := lines[2:]
	if len(rows) != len(names) {
		sym.Violation(id, "wrong number of rows")
		return
	}
	sorted := append([]string{}, names...)
	sort.Strings(sorted)
	for i, r := range rows {
		cells := strings.SplitN(r, "\t", 2)
		name := strings.TrimSpace(stripANSI(cells[0]))
		val := ""
		if len(cells) > 1 {
			val = strings.TrimSpace(stripANSI(cells[1]))
		}
		sym.Assert(name == sorted[i], id)
		sym.Assert(val == second[sorted[i]], id)
	}
}

func stripANSI(s string) string {
	var b strings.Builder
	for i := 0; i < len(s); i++ {
		if s[i] == 0x1b {
			for i < len(s) && s[i] != 'm' {
				i++
			}
			continue
		}
		b.WriteByte(s[i])
	}
	return b.String()
}

type jsonCmd struct {
	Cmd    string `json:"cmd"`
	Stdout string `json:"stdout"`
	Stderr string `json:"stderr"`
	Status int    `json:"status"`
}

type jsonTask struct {
	Task    string    `json:"task"`
	Results []jsonCmd `json:"results"`
	Skipped bool      `json:"skipped"`
}

// checkJSON checks the --json report: one document, the tasks of the run in execution order
// (a before b), every executed command with its text, output, error output and status.
func checkJSON(procOut string, ran []cmdSpec) {
	var got []jsonTask
	if sym.Symbolic() {
		// the JSON encoder is modelled: inspect the value it was handed, and the printing
		if len(stubs.JSONValues) != 1 {
			sym.Violation("C20/json-report-wrong", "not exactly one document")
			return
		}
		// exactly the encoder's text and a line feed reach standard output
		sym.Assert(len(stubs.JSONTexts) == 1 && procOut == stubs.JSONTexts[0]+"\n", "C20/json-report-wrong")
		res, ok := stubs.JSONValues[0].(task.Results)
		if !ok {
			sym.Violation("C20/json-report-wrong", "not the results")
			return
		}
		for _, r := range res {
			jt := jsonTask{Task: r.Task, Skipped: r.Skipped}
			for _, c := range r.CommandResults {
				jt.Results = append(jt.Results, jsonCmd{c.Cmd, c.Stdout, c.Stderr, c.Status})
			}
			got = append(got, jt)
		}
	} else {
		if err := json.Unmarshal([]byte(procOut), &got); err != nil {
			sym.Violation("C20/json-report-wrong", "standard output is not a single JSON document: "+err.Error())
			return
		}
	}
	// expected: tasks in order of first appearance in ran
	var wantTasks []string
	for _, s := range ran {
		if len(wantTasks) == 0 || wantTasks[len(wantTasks)-1] != s.task {
			wantTasks = append(wantTasks, s.task)
		}
	}
	if len(got) != len(wantTasks) {
		sym.Violation("C20/json-report-wrong", "wrong number of tasks")
		return
	}
	// a must come before b when both are present
	pos := map[string]int{}
	for i, t := range got {
		pos[t.Task] = i
	}
	if pa, oka := pos["a"]; oka {
		if pb, okb := pos["b"]; okb {
			sym.Assert(pa < pb, "C20/json-report-wrong")
		}
	}
	for _, t := range got {
		var want []cmdSpec
		for _, s := range ran {
			if s.task == t.Task {
				want = append(want, s)
			}
		}
		if len(want) == 0 || len(t.Results) != len(want) || t.Skipped {
			sym.Violation("C20/json-report-wrong", "task "+t.Task)
			return
		}
		for i, c := range t.Results {
			sym.Assert(c.Cmd == cmdText(want[i].name, want[i].status), "C20/json-report-wrong")
			sym.Assert(c.Stdout == outMark(want[i].name), "C20/json-report-wrong")
			sym.Assert(c.Stderr == errMark(want[i].name), "C20/json-report-wrong")
			sym.Assert(c.Status == want[i].status, "C20/json-report-wrong")
		}
	}
}
