package clih

import (
	"bytes"
	"path"
	"sort"
	"strings"

	"github.com/FollowTheProcess/spok/cli/app"
	"github.com/FollowTheProcess/spok/iostream"
	"github.com/FollowTheProcess/spok/zzverif/stubs"
	"github.com/FollowTheProcess/spok/zzverif/sym"
	"mvdan.cc/sh/v3/expand"
)

// Output strings a task may declare: every string over {'.', '/', 'o'} up to length 2 (the
// dangerous ones are found, not planted), and longer ones inside and outside the project.
var cleanOutputs = []string{
	"", ".", "/", "o", "..", "./", "/.", "//", ".o", "o.", "/o", "o/", "oo", "./.",
	"out", "out/", "./out", "sub", "sub/inner.txt", "data.txt", "nonexistent", "../other", "../..", "out/../..", "gen/deep",
}

// Output globs: three that match generated files, and two that also match the spokfile itself
// (the project must survive those: found missing by a seeded change, see DESIGN.md 9.5).
var cleanGlobs = []string{"*.gen", "gen/*", "**/*.tmp", "s*", "*"}

// nativeSafeOutput reports whether replaying --clean natively with this output can only delete
// inside the temporary sandbox: the real os.RemoveAll runs there. Absolute values and more than
// two levels of ".." are only ever explored in the engine's in-memory file system.
func nativeSafeOutput(s string) bool {
	if strings.HasPrefix(s, "/") {
		return false
	}
	return strings.Count(s, "..") <= 2
}

// Clean: --clean removes exactly the declared outputs and the cache, never the project (C12).
//
// One task with one output whose kind (literal, named variable, glob) and text are symbolic
// choices, optionally a second task with a plain literal output; cwd is the project root, a
// nested directory or the file-system root; optionally a task named clean exists.
func Clean() {
	p, cleanup := newCliProject()
	defer cleanup()
	kind := []string{"literal", "named", "glob"}[sym.Choice("kind", 3)]
	outText := ""
	spok := ""
	switch kind {
	case "literal":
		outText = cleanOutputs[sym.Choice("output", len(cleanOutputs))]
		spok = "task build() -> \"" + outText + "\" {\n\t" + cmdText("cmdBuild", 0) + "\n}\n"
	case "named":
		outText = cleanOutputs[sym.Choice("output", len(cleanOutputs))]
		spok = "OUT := \"" + outText + "\"\ntask build() -> OUT {\n\t" + cmdText("cmdBuild", 0) + "\n}\n"
	case "glob":
		outText = cleanGlobs[sym.Choice("output", len(cleanGlobs))]
		spok = "task build() -> \"" + outText + "\" {\n\t" + cmdText("cmdBuild", 0) + "\n}\n"
	}
	if !sym.Symbolic() && !nativeSafeOutput(outText) {
		sym.Cut("not replayed natively: the real RemoveAll could leave the sandbox")
	}
	second := sym.Bool("second_task")
	if second {
		spok += "task other() -> \"out2\" {\n\t" + cmdText("cmdOther", 0) + "\n}\n"
	}
	hasCleanTask := sym.Bool("clean_task")
	if hasCleanTask {
		spok += "task clean() {\n\t" + cmdText("cmdClean", 0) + "\n}\n"
	}
	p.put("proj/spokfile", spok)
	// the tree: inside and outside the declared outputs
	for _, f := range []string{"proj/data.txt", "proj/sub/inner.txt", "proj/out/bin", "proj/out2", "proj/o", "proj/oo/x", "proj/.o", "proj/a.gen", "proj/gen/b.gen", "proj/gen/deep/c.tmp", "proj/keep.tmp.not", "proj/x.tmp", "other/file", "top.txt"} {
		p.put(f, "content")
	}
	if sym.Bool("has_cache") {
		// an empty but valid cache: "{}" for the real encoder, a snapshot token for its model
		content := "{}"
		if sym.Symbolic() {
			data, _ := stubs.JSONMarshal(map[string]string{})
			content = string(data)
		}
		p.put("proj/.spok/cache.json", content)
	}
	cwdSel := sym.Choice("cwd", 3)
	switch cwdSel {
	case 0:
		p.chdir(p.root)
	case 1:
		p.chdir(p.root + "/sub")
	case 2:
		if !sym.Symbolic() {
			// the native replay never works from the real root directory
			sym.Cut("cwd=/ is only explored in the engine's file system")
		}
		p.chdir("/")
	}
	ranClean := false
	if sym.Symbolic() {
		stubs.ShellHook = func(cmd string, env expand.Environ) (string, string, int) {
			if cmd == "cmdClean" {
				ranClean = true
			}
			return "", "", 0
		}
	}
	sym.Observe("config", "kind="+kind+" output="+outText+" second="+boolStr(second)+" cleantask="+boolStr(hasCleanTask)+" cwd="+[]string{"root", "sub", "/"}[cwdSel])

	before := p.snapshot()
	a := app.New(iostream.IOStream{Stdout: &bytes.Buffer{}, Stderr: &bytes.Buffer{}})
	a.Options.Clean = true
	if cwdSel == 2 {
		a.Options.Spokfile = p.root + "/spokfile" // not discoverable from "/"
	}
	err := a.Run(nil)
	after := p.snapshot()
	sym.Reach("C12/returned")
	sym.Observe("error", err != nil)

	var removed []string
	for path := range before {
		if _, ok := after[path]; !ok {
			removed = append(removed, path)
		}
	}
	sort.Strings(removed)
	var other []string // created or modified
	for path, c := range after {
		if b, ok := before[path]; !ok || b != c {
			other = append(other, path)
		}
	}
	sort.Strings(other)
	sym.Observe("removed", strings.Join(topmost(removed), " "))

	if hasCleanTask {
		// the user's task runs instead; spok itself removes nothing (it may create its cache)
		sym.Reach("C12/clean-task")
		sym.Assert(len(removed) == 0, "C12/removed-something-although-a-clean-task-exists")
		if sym.Symbolic() {
			if !ranClean {
				sym.Observe("lastcmd", stubs.ShellCmd)
				if err != nil {
					sym.Observe("errtext", err.Error())
				}
			}
			sym.Assert(ranClean, "C12/clean-task-did-not-run")
		}
		return
	}
	sym.Reach("C12/builtin-clean")
	// nothing is created or modified
	sym.Assert(len(other) == 0, "C12/clean-created-or-modified-files")

	// (1) never the spokfile, its directory, or anything above it
	_, spokfileGone := after["proj/spokfile"]
	sym.Assert(spokfileGone, "C12/removed-the-project")
	for _, r := range removed {
		if r == "proj" || r == "proj/spokfile" {
			sym.Violation("C12/removed-the-project", r)
			return
		}
	}

	// what the declared outputs designate, relative to HOME
	designated := map[string]bool{"proj/.spok": true}
	addDesignated := func(base, s string, absolute bool) {
		full := path.Join("/HOME/"+base, s)
		if absolute && strings.HasPrefix(s, "/") {
			full = path.Clean(s) // an absolute output
			if sym.Symbolic() && strings.HasPrefix(full, p.home) {
				full = "/HOME" + strings.TrimPrefix(full, p.home)
			}
		}
		if strings.HasPrefix(full, "/HOME/") {
			designated[strings.TrimPrefix(full, "/HOME/")] = true
		} else {
			designated["<outside-home>"+full] = true
		}
	}
	cwdRel := []string{"proj", "proj/sub", ""}[cwdSel]
	switch kind {
	case "literal":
		// a literal output is joined to the spokfile directory, a leading '/' included
		addDesignated("proj", outText, false)
	case "named":
		// a named output's value is accepted relative to the spokfile directory or to the
		// working directory (the weaker reading)
		addDesignated("proj", outText, true)
		if cwdSel != 2 {
			addDesignated(cwdRel, outText, true)
		}
	}
	if second {
		addDesignated("proj", "out2", false)
	}
	var globMatches []string
	if kind == "glob" {
		for path := range before {
			if !strings.HasPrefix(path, "proj/") {
				continue
			}
			rel := strings.TrimPrefix(path, "proj/")
			if globMatch(outText, rel) && !strings.HasPrefix(rel, ".") {
				globMatches = append(globMatches, path)
				designated[path] = true
			}
		}
		sort.Strings(globMatches)
	}

	// When an output designates the project itself (or something above it) the two clauses of
	// the property conflict; refusing the whole invocation with an explicit error and removing
	// nothing is accepted.
	protected := false
	for d := range designated {
		full := "/HOME/" + d
		if strings.HasPrefix(d, "<outside-home>") {
			full = strings.TrimPrefix(d, "<outside-home>")
		}
		full = path.Clean(full)
		if full == "/" || full == "/HOME/proj" || full == "/HOME/proj/spokfile" || strings.HasPrefix("/HOME/proj/", strings.TrimSuffix(full, "/")+"/") {
			protected = true
		}
	}
	if protected && err != nil {
		sym.Reach("C12/refused-because-an-output-designates-the-project")
		sym.Assert(len(removed) == 0, "C12/refused-but-removed-something")
		return
	}
	sym.Assert(err == nil, "C12/clean-failed")

	// (2) everything removed is the cache or designated by an output (or lies below one)
	for _, r := range topmost(removed) {
		ok := false
		for d := range designated {
			if r == d || strings.HasPrefix(r, d+"/") {
				ok = true
			}
		}
		if !ok {
			sym.Observe("offending", r)
			sym.Violation("C12/removed-something-no-output-designates", r)
			return
		}
	}
	// (3) every existing designated path inside the project is removed -- unless it is the
	// project itself or above it, which (1) forbids. For a named output either reading of its
	// value (relative to the spokfile directory, or to the working directory) is accepted: the
	// check below is then made against the reading spok honoured.
	if kind == "named" {
		rootRel := path.Join("proj", outText)
		cwdReading := path.Join(cwdRel, outText)
		honoured := func(d string) bool {
			_, existed := before[d]
			_, still := after[d]
			return !existed || !still || d == "proj" || d == "proj/spokfile" || !strings.HasPrefix(d, "proj/")
		}
		if strings.HasPrefix(outText, "/") || cwdSel == 2 || honoured(cwdReading) {
			delete(designated, rootRel)
			if honoured(rootRel) {
				designated[rootRel] = true
			}
		}
	}
	for d := range designated {
		if _, existed := before[d]; !existed {
			continue
		}
		if d == "proj" || d == "proj/spokfile" || !strings.HasPrefix(d, "proj/") {
			continue
		}
		if _, still := after[d]; still {
			sym.Observe("left", d)
			if kind == "glob" {
				sym.Violation("C12/files-matching-an-output-glob-not-removed", d)
			} else {
				sym.Violation("C12/declared-output-not-removed", d)
			}
			return
		}
	}
}

func boolStr(b bool) string {
	if b {
		return "1"
	}
	return "0"
}

// topmost keeps the removed paths that are not below another removed path.
func topmost(paths []string) []string {
	var out []string
	for _, p := range paths {
		below := false
		for _, q := range paths {
			if p != q && strings.HasPrefix(p, q+"/") {
				below = true
			}
		}
		if !below {
			out = append(out, p)
		}
	}
	return out
}

// globMatch is the reference matcher for the three output globs of this harness.
func globMatch(pattern, rel string) bool {
	switch pattern {
	case "*.gen":
		return !strings.Contains(rel, "/") && strings.HasSuffix(rel, ".gen")
	case "gen/*":
		return strings.HasPrefix(rel, "gen/") && !strings.Contains(rel[4:], "/") && len(rel) > 4
	case "**/*.tmp":
		return strings.HasSuffix(rel, ".tmp")
	case "s*":
		return !strings.Contains(rel, "/") && strings.HasPrefix(rel, "s")
	case "*":
		return !strings.Contains(rel, "/")
	}
	return false
}
