package clih

import (
	"os"
	"strings"

	"github.com/FollowTheProcess/spok/cli/cmd"
	"github.com/FollowTheProcess/spok/zzverif/stubs"
	"github.com/FollowTheProcess/spok/zzverif/sym"
	"github.com/FollowTheProcess/spok/zzverif/vfs"
	"mvdan.cc/sh/v3/expand"
)

// Main: the path from the command line to the process's exit status (C09: "it exits non-zero").
//
// cmd/spok/main.go is `if err := run(); err != nil { msg.Error(...); os.Exit(1) }` with
// run = cmd.BuildRootCmd().Execute(); this harness executes exactly that run() - the real flag
// parsing of FollowTheProcess/cli over a real argument vector, then App.Run - and asserts that
// it returns an error whenever a command exits non-zero (and none when all succeed). The last
// step, error => os.Exit(1), is main's one-line if statement.
func Main() {
	p, cleanup := newCliProject()
	defer cleanup()
	stA := statusPool[sym.Choice("status_a", len(statusPool))]
	stB := statusPool[sym.Choice("status_b", len(statusPool))]
	p.put("proj/spokfile", "task a() {\n\t"+cmdText("cmdA1", stA)+"\n}\n\ntask b(a) {\n\t"+cmdText("cmdB", stB)+"\n}\n")
	p.chdir(p.root)
	if sym.Symbolic() {
		stubs.ShellHook = func(c string, env expand.Environ) (string, string, int) {
			switch c {
			case "cmdA1":
				return "", "", stA
			case "cmdB":
				return "", "", stB
			}
			return "", "", 0
		}
	}
	args := []string{"spok"}
	for _, f := range []string{"--quiet", "--json", "--force", "-q", "-j", "-f"} {
		if sym.Bool("flag" + f) {
			args = append(args, f)
		}
	}
	req := [][]string{{"a"}, {"b"}, {"a", "b"}}[sym.Choice("tasks", 3)]
	args = append(args, req...)
	sym.Observe("argv", strings.Join(args, " "))
	if sym.Symbolic() {
		os.Args = args
		os.Stdin, os.Stdout, os.Stderr = vfs.StdStreams()
	} else {
		oldArgs := os.Args
		os.Args = args
		defer func() { os.Args = oldArgs }()
	}

	var err error
	captureStdout(func() {
		root, berr := cmd.BuildRootCmd()
		if berr != nil {
			err = berr
			return
		}
		err = root.Execute()
	})
	sym.Reach("C09/main-returned")
	sym.Observe("error", err != nil)
	failing := stA != 0 || (stB != 0 && req[len(req)-1] == "b")
	if failing {
		sym.Assert(err != nil, "C09/process-would-exit-zero-although-a-command-failed")
	} else {
		sym.Assert(err == nil, "C09/process-would-exit-non-zero-although-every-command-succeeded")
	}
}
