// Package clih holds the harnesses of the command-line layer: variables and environment (C13),
// failing commands (C09), what spok writes (C19), reports and listings (C20), --clean (C12).
package clih

import (
	"strconv"
	"strings"

	"github.com/FollowTheProcess/spok/iostream"
	"github.com/FollowTheProcess/spok/shell"
	"github.com/FollowTheProcess/spok/zzverif/stubs"
	"github.com/FollowTheProcess/spok/zzverif/sym"
	"github.com/FollowTheProcess/spok/zzverif/vfs"
	"mvdan.cc/sh/v3/expand"

	"os"
)

// printable ASCII without quotes, '$', backslash, backquote: safe in a value of the environment
// and inside a double-quoted shell word (for the native replay). '=' is admitted: a value such as
// "-X main.version=1" is ordinary (the alphabet once excluded it, and a seeded change that
// dropped every pair with a second '=' went unnoticed, DESIGN.md 9.5); names are fixed.
var tblEnvByte [256]bool

func init() {
	for c := 0x20; c < 0x7f; c++ { // blank included: values with spaces are ordinary
		switch byte(c) {
		case '"', '\'', '$', '\\', '`':
		default:
			tblEnvByte[c] = true
		}
	}
}

func envHole(name string, n int) string {
	s := sym.String(name, n)
	for i := 0; i < len(s); i++ {
		sym.Assume(tblEnvByte[s[i]])
	}
	return s
}

// EnvPrecedence: every spokfile variable is present in each command's environment with its
// spokfile value, whatever the ambient environment contains (C13, environment clause).
//
// The real shell.IntegratedRunner.Run is executed with the variables as spok passes them
// (KEY=VALUE); the ambient environment holds up to `ambient` symbolic pairs whose names are
// chosen among the spokfile's variable names and an unrelated one.
func EnvPrecedence() {
	nvars := sym.ParamInt("vars", 2)
	nambient := sym.ParamInt("ambient", 1)
	// one name is a proper prefix of another: a lookup that matched "A" against "AA=..." would show
	names := []string{"AA", "A", "B"}[:nvars]
	values := make([]string, nvars)
	var spokEnv []string
	for i, n := range names {
		values[i] = envHole("value_"+n, sym.ParamInt("size", 1))
		spokEnv = append(spokEnv, n+"="+values[i])
	}
	pool := append(append([]string{}, names...), "ZZ")
	var ambient []string
	for k := 0; k < nambient; k++ {
		key := pool[sym.Choice("ambientkey"+strconv.Itoa(k), len(pool))]
		ambient = append(ambient, key+"="+envHole("ambientvalue"+strconv.Itoa(k), sym.ParamInt("size", 1)))
	}
	sym.Observe("ambient", strings.Join(ambient, " "))
	sym.Observe("vars", strings.Join(spokEnv, " "))

	if sym.Symbolic() {
		vfs.Reset()
		stubs.ResetShell()
		vfs.Env = append([]string{"PATH=/bin", "HOME=/home"}, ambient...)
		seen := map[string]string{}
		stubs.ShellHook = func(cmd string, env expand.Environ) (string, string, int) {
			for _, n := range names {
				seen[n] = env.Get(n).Str
			}
			return "", "", 0
		}
		res, err := shell.NewIntegratedRunner().Run("true", iostream.Null(), "t", spokEnv)
		if err != nil || res.Status != 0 {
			sym.Violation("C13/command-did-not-run", "")
			return
		}
		sym.Reach("C13/command-ran")
		for i, n := range names {
			if len(seen[n]) != len(values[i]) {
				sym.Observe("seen_"+n, seen[n])
				sym.Violation("C13/ambient-environment-overrides-spokfile-variable", n)
				return
			}
			sym.Assert(seen[n] == values[i], "C13/ambient-environment-overrides-spokfile-variable")
		}
		return
	}
	// native replay: the real shell prints each variable
	for _, kv := range ambient {
		k, v, _ := strings.Cut(kv, "=")
		os.Setenv(k, v)
		defer os.Unsetenv(k)
	}
	for i, n := range names {
		res, err := shell.NewIntegratedRunner().Run("printf '%s' \"$"+n+"\"", iostream.Null(), "t", spokEnv)
		if err != nil || res.Status != 0 {
			sym.Violation("C13/command-did-not-run", "")
			return
		}
		sym.Reach("C13/command-ran")
		sym.Assert(res.Stdout == values[i], "C13/ambient-environment-overrides-spokfile-variable")
	}
}
