// Package stubs holds the models that replace third-party / standard-library code the
// symbolic engine cannot (or should not) execute: SHA-256, encoding/json of the cache map,
// text/template, colour and message printing, the fuzzy matcher. They are ordinary Go,
// executed by the engine, and listed in every evidence file.
package stubs

import (
	"errors"
	"fmt"
	"hash"
	"io"
	"sort"
	"strings"
	"text/template"

	"github.com/FollowTheProcess/spok/task"
	"github.com/fatih/color"
	"github.com/lithammer/fuzzysearch/fuzzy"
)

// ---- SHA-256: an injective function onto 32-byte blocks ("up to collisions") ---------------------
//
// Every distinct input is given a distinct small number (interning); comparing a new input
// with the earlier ones is where the engine forks on "same content as before or not".

var interned []string

// Intern returns the number of s, giving it a new one if it was not seen before.
func Intern(s string) int {
	for i, t := range interned {
		if t == s {
			return i
		}
	}
	interned = append(interned, s)
	return len(interned) - 1
}

// ResetHash forgets all interned inputs (and the JSON model's memory).
func ResetHash() { interned = nil; snapshots = nil; JSONValues = nil; JSONTexts = nil }

type digest struct{ buf []byte }

func (d *digest) Write(p []byte) (int, error) { d.buf = append(d.buf, p...); return len(p), nil }
func (d *digest) Reset()                      { d.buf = nil }
func (d *digest) Size() int                   { return 32 }
func (d *digest) BlockSize() int              { return 64 }
func (d *digest) Sum(b []byte) []byte {
	id := Intern(string(d.buf))
	out := make([]byte, 32)
	// bytes >= 0x80 so that a digest never looks like path text (DESIGN.md C04)
	out[0] = 0x80 | byte(id>>7)
	out[1] = 0x80 | byte(id&0x7f)
	for i := 2; i < 32; i++ {
		out[i] = 0xEE
	}
	return append(b, out...)
}

// SHA256New replaces crypto/sha256.New.
func SHA256New() hash.Hash { return &digest{} }

// ---- encoding/json of map[string]string: snapshots -------------------------------------------------

var snapshots []map[string]string

// JSONValues are the values (other than the cache map) handed to json.Marshal, in order.
var JSONValues []any

const jsonMagic = "\x01JSON#"

// JSONMarshal replaces encoding/json.Marshal for the cache map: the text stands for a snapshot.
// JSONTexts are the texts returned for the values of JSONValues.
var JSONTexts []string

func JSONMarshal(v any) ([]byte, error) {
	m, ok := v.(map[string]string)
	if !ok {
		// any other value: remembered for the harness to inspect, the text is a token
		JSONValues = append(JSONValues, v)
		text := fmt.Sprintf("\x01JSONVAL#%d#", len(JSONValues)-1)
		// the text also carries the strings of a run report, as a real document would, so that
		// whatever the caller does to the text on its way out happens to them too
		if res, ok := v.(task.Results); ok {
			for _, r := range res {
				text += "\x02" + r.Task
				for _, c := range r.CommandResults {
					text += "\x02" + c.Cmd + "\x02" + c.Stdout + "\x02" + c.Stderr
				}
			}
			text = strings.ReplaceAll(text, "\n", "\x03")
		}
		JSONTexts = append(JSONTexts, text)
		return []byte(text), nil
	}
	cp := map[string]string{}
	for k, val := range m {
		cp[k] = val
	}
	snapshots = append(snapshots, cp)
	return []byte(fmt.Sprintf("%s%04d#", jsonMagic, len(snapshots)-1)), nil
}

// JSONUnmarshal replaces encoding/json.Unmarshal: only a complete snapshot text parses
// (assumption A-JSON: no proper prefix of a JSON object encoding is valid JSON).
func JSONUnmarshal(data []byte, v any) error {
	s := string(data)
	if len(s) != len(jsonMagic)+5 || !strings.HasPrefix(s, jsonMagic) || s[len(s)-1] != '#' {
		return errors.New("unexpected end of JSON input")
	}
	n := 0
	for _, c := range s[len(jsonMagic) : len(s)-1] {
		n = n*10 + int(c-'0')
	}
	p, ok := v.(*map[string]string)
	if !ok || n >= len(snapshots) {
		return errors.New("json: cannot unmarshal")
	}
	out := map[string]string{}
	for k, val := range snapshots[n] {
		out[k] = val
	}
	*p = out
	return nil
}

// ---- text/template: {{.NAME}} substitution ---------------------------------------------------------

var templates = map[*template.Template]string{}

func TemplateNew(name string) *template.Template { return new(template.Template) }

func TemplateParse(t *template.Template, text string) (*template.Template, error) {
	templates[t] = text
	if strings.Count(text, "{{") != strings.Count(text, "}}") {
		return nil, errors.New("template: unclosed action")
	}
	return t, nil
}

func TemplateExecute(t *template.Template, w io.Writer, data any) error {
	text := templates[t]
	vars, _ := data.(map[string]string)
	for {
		i := strings.Index(text, "{{")
		if i < 0 {
			break
		}
		j := strings.Index(text[i:], "}}")
		if j < 0 {
			return errors.New("template: unclosed action")
		}
		io.WriteString(w, text[:i])
		action := strings.TrimSpace(text[i+2 : i+j])
		if !strings.HasPrefix(action, ".") {
			return errors.New("template: unsupported action " + action)
		}
		if v, ok := vars[action[1:]]; ok {
			io.WriteString(w, v)
		} else {
			// what text/template prints for a key that is missing from a map
			io.WriteString(w, "<no value>")
		}
		text = text[i+j+2:]
	}
	io.WriteString(w, text)
	return nil
}

// ---- fatih/color and FollowTheProcess/msg: plain pass-through ---------------------------------------

func ColorNew(value ...color.Attribute) *color.Color { return new(color.Color) }

func ColorFprintln(c *color.Color, w io.Writer, a ...interface{}) (int, error) {
	return fmt.Fprintln(w, a...)
}

func ColorFprintf(c *color.Color, w io.Writer, format string, a ...interface{}) (int, error) {
	return fmt.Fprintf(w, format, a...)
}

func ColorFprint(c *color.Color, w io.Writer, a ...interface{}) (int, error) {
	return fmt.Fprint(w, a...)
}

func ColorSprint(c *color.Color, a ...interface{}) string { return fmt.Sprint(a...) }

func ColorSprintf(c *color.Color, format string, a ...interface{}) string {
	return fmt.Sprintf(format, a...)
}

func MsgF(w io.Writer, format string, a ...any) {
	fmt.Fprintf(w, format, a...)
	fmt.Fprintln(w)
}

// MsgStderr collects what msg.Error would print to the process's standard error.
var MsgStderr []string

func MsgError(format string, a ...any) {
	MsgStderr = append(MsgStderr, fmt.Sprintf(format, a...))
}

// ---- fuzzy matcher: no suggestion ---------------------------------------------------------------

func FuzzyRank(source string, targets []string) fuzzy.Ranks { return nil }

var _ = sort.Strings

// ---- runtime.NumCPU ---------------------------------------------------------------------------------

// CPUs is what runtime.NumCPU reports to the code under test.
var CPUs = 4

func NumCPU() int { return CPUs }
