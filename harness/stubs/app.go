package stubs

// Models for what cli/app pulls in besides the shell: the zap-backed logger and godotenv.

import (
	"strings"

	"github.com/FollowTheProcess/spok/logger"
	"github.com/FollowTheProcess/spok/zzverif/vfs"
)

// NewLogger replaces logger.NewZapLogger: a logger that does nothing (the debug log goes to
// the process's standard error and is outside every property checked here).
func NewLogger(verbose bool) (*logger.ZapLogger, error) { return new(logger.ZapLogger), nil }

func LoggerDebug(z *logger.ZapLogger, format string, args ...any) {}
func LoggerSync(z *logger.ZapLogger) error                        { return nil }

// DotenvLoad replaces godotenv.Load: KEY=VALUE lines of the file are added to the process
// environment unless the key is already set (godotenv.Load does not override).
func DotenvLoad(filenames ...string) error {
	for _, f := range filenames {
		data, err := vfs.ReadFile(f)
		if err != nil {
			return err
		}
		for _, line := range strings.Split(string(data), "\n") {
			line = strings.TrimSpace(line)
			if line == "" || strings.HasPrefix(line, "#") {
				continue
			}
			k, v, ok := strings.Cut(line, "=")
			if !ok {
				continue
			}
			if vfs.Getenv(k) == "" {
				vfs.Env = append(vfs.Env, k+"="+v)
			}
		}
	}
	return nil
}
