package stubs

// Model of the mvdan.cc/sh shell at its API boundary: spok's IntegratedRunner.Run is executed
// for real, the parser and the interpreter it drives are replaced by the functions below.
// What a command "does" is decided by ShellHook, which the harness sets.

import (
	"context"
	"io"

	"mvdan.cc/sh/v3/expand"
	"mvdan.cc/sh/v3/interp"
	"mvdan.cc/sh/v3/syntax"
)

var (
	// ShellEnv is the environment handed to the interpreter for the command being run.
	ShellEnv expand.Environ
	// ShellStdout and ShellStderr are the writers handed to the interpreter.
	ShellStdout, ShellStderr io.Writer
	// ShellCmd is the text of the command being run.
	ShellCmd string
	// ShellHook decides the effect of a command: what it prints and its exit status.
	ShellHook func(cmd string, env expand.Environ) (stdout, stderr string, status int)
	// ShellParseError makes the next Parse fail when set.
	ShellParseError error
)

func noOption(*interp.Runner) error { return nil }

func InterpEnv(env expand.Environ) interp.RunnerOption {
	ShellEnv = env
	return noOption
}

func InterpStdIO(in io.Reader, out, err io.Writer) interp.RunnerOption {
	ShellStdout, ShellStderr = out, err
	return noOption
}

func InterpParams(args ...string) interp.RunnerOption { return noOption }
func InterpDir(path string) interp.RunnerOption       { return noOption }
func InterpExecHandlers(middlewares ...func(next interp.ExecHandlerFunc) interp.ExecHandlerFunc) interp.RunnerOption {
	return noOption
}
func InterpOpenHandler(f interp.OpenHandlerFunc) interp.RunnerOption { return noOption }

func InterpNew(opts ...interp.RunnerOption) (*interp.Runner, error) {
	return new(interp.Runner), nil
}

// RunnerRun replaces (*interp.Runner).Run.
func RunnerRun(r *interp.Runner, ctx context.Context, node syntax.Node) error {
	stdout, stderr, status := "", "", 0
	if ShellHook != nil {
		stdout, stderr, status = ShellHook(ShellCmd, ShellEnv)
	}
	if ShellStdout != nil && stdout != "" {
		io.WriteString(ShellStdout, stdout)
	}
	if ShellStderr != nil && stderr != "" {
		io.WriteString(ShellStderr, stderr)
	}
	if status != 0 {
		return interp.NewExitStatus(uint8(status))
	}
	return nil
}

func SyntaxNewParser(options ...syntax.ParserOption) *syntax.Parser { return new(syntax.Parser) }

// ParserParse replaces (*syntax.Parser).Parse: the text becomes the current command.
func ParserParse(p *syntax.Parser, r io.Reader, name string) (*syntax.File, error) {
	data, err := io.ReadAll(r)
	if err != nil {
		return nil, err
	}
	ShellCmd = string(data)
	if ShellParseError != nil {
		return nil, ShellParseError
	}
	return &syntax.File{}, nil
}

// ResetShell clears the shell model.
func ResetShell() {
	ShellEnv, ShellStdout, ShellStderr, ShellCmd, ShellHook, ShellParseError = nil, nil, nil, "", nil, nil
}
