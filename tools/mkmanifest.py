#!/usr/bin/env python3
"""Regenerates /verif/MANIFEST.json from tools/manifest_src.json (claimed checks + N/A reasons)."""
import json, os, sys
here = os.path.dirname(os.path.dirname(os.path.abspath(__file__)))
src = json.load(open(os.path.join(here, "tools", "manifest_src.json")))
props = [json.loads(l) for l in open(os.path.join(here, "properties.jsonl"))]
ids = [p["id"] for p in props]
checks = []
for c in src["checks"]:
    pid = c["property_id"]
    checks.append({
        "property_id": pid,
        "quick_cmd": f"/verif/bin/check {pid} --tier quick",
        "thorough_cmd": f"/verif/bin/check {pid} --tier thorough",
        "evidence_file": f"/verif/evidence/{pid}.json",
        "replay_cmd_template": f"/verif/bin/check {pid} --replay {{path}}",
        "engine": "gosym",
        "level_claimed": {"category": c.get("category", "other"), "text": c["text"], "design_ref": c.get("design_ref", "DESIGN.md section 4")},
        "level_note": c["note"],
        "technique": c.get("technique", "bounded symbolic execution of the real code (go/ssa) with SMT-decided branches and assertions (z3), counterexamples replayed natively"),
    })
claimed = {c["property_id"] for c in checks}
na = [{"property_id": i, "reason": src["not_applicable"].get(i, "check not built yet in this round (solver-based harness pending); not claimed")} for i in ids if i not in claimed]
m = {
    "version": 1,
    "setup_cmd": "cd /verif/engine && GOFLAGS=-mod=mod GOPROXY=off GOSUMDB=off GOTOOLCHAIN=local go build -o /verif/bin/gosym ./cmd/gosym",
    "hooks": {"guard": "verif", "enable": "no source hooks: the harness is injected with go/packages overlays (virtual /repo/zzverif/...) and go test -overlay; -tags verif is passed but nothing in /repo depends on it. One piece of instrumentation exists only in the build of the native replay binary and is never committed to /repo: a copy of cache/cache.go regenerated at every run from the current source, in which Dump's os.WriteFile call goes through a wrapper (harness/runh/inpkg__cache__hook.go, laid over package cache) so that a kill inside a write of the cache file can be replayed at that write", "baseline_off_cmd": "cd /repo && go test -vet=off -count=1 ./...", "source_commits": [], "add_only": True},
    "engines": [{"name": "gosym", "path": "/verif/engine", "serves_properties": sorted(claimed), "kind_free_text": "symbolic executor for Go SSA written for this task: fork of x/tools go/ssa/interp v0.29.0 with SMT bit-vector values, solver-decided branching explored by re-execution, cooperative goroutine scheduler, z3 5.1.0 over a pipe"}],
    "checks": checks,
    "notes": src.get("notes", ""),
    "not_applicable": na,
}
json.dump(m, open(os.path.join(here, "MANIFEST.json"), "w"), indent=1)
print("claimed:", sorted(claimed), "n/a:", [x["property_id"] for x in na])
