#!/bin/sh
# seeded_run.sh <id> [check ids...]: apply /verif/seeded/<id>/patch.diff to /repo, run the quick tier of the
# checks (default: <id>), undo the patch straight afterwards. Evidence goes to a scratch directory.
ID=$1; shift
CHECKS=${*:-$ID}
git -C /repo diff --quiet || { echo "/repo is not clean"; exit 2; }
git -C /repo apply /verif/seeded/$ID/patch.diff || { echo "patch does not apply"; exit 2; }
for c in $CHECKS; do
  GOSYM_EVIDENCE=/tmp/seed_evidence GOSYM_WORK=/tmp/seed_work/apply_$ID timeout 1500 /verif/bin/check $c --tier quick > /tmp/seedrun_${ID}_$c.log 2>&1
  echo "$ID check=$c exit=$? $(grep -c '^VIOLATION' /tmp/seedrun_${ID}_$c.log) violation line(s): $(grep '^  signature' /tmp/seedrun_${ID}_$c.log | sed 's/ on [0-9]* paths.*//; s/  signature //' | tr '\n' ',')"
done
git -C /repo checkout -- .
git -C /repo diff --quiet && echo "/repo restored"
