#!/bin/sh
# confirm_seed.sh <id> <worktree>: independently confirm a seeded change and file it under /verif/seeded/<id>/
# Confirms: patch.diff is the working-tree change; builds; the existing suite passes with the change
# (demo moved aside); the demo fails with the change and passes without it.
set -u
ID=$1; WT=$2
export GOFLAGS=-mod=mod GOPROXY=off GOSUMDB=off GOTOOLCHAIN=local
cd "$WT" || exit 2
DEMO=$(git status --short | grep '^??' | grep 'zz_demo_test.go' | awk '{print $2}' | head -1)
[ -n "$DEMO" ] || { echo "no demo file"; exit 2; }
PKG=./$(dirname "$DEMO")/
CHANGED=$(git diff --name-only | tr '\n' ' ')
echo "changed: $CHANGED demo: $DEMO"
git diff -- $CHANGED > /tmp/confirm_$ID.diff
go build ./... && echo "build: ok" || { echo "build: FAILED"; exit 1; }
mv "$DEMO" /tmp/confirm_demo_$ID.go
SUITE=$(go test -vet=off -count=1 ./... 2>&1 | grep -v "no test files" | grep -vc "^ok")
mv /tmp/confirm_demo_$ID.go "$DEMO"
echo "existing suite with the change: $SUITE package(s) not ok"
WITH=$(timeout 300 go test -vet=off -count=1 -run 'TestDemo|TestZZDemo' $PKG 2>&1 | tail -1)
echo "demo WITH change: $WITH"
# no git stash here: refs/stash is shared by /repo and all its worktrees (two agents and this
# script once swapped changes that way); reverse-apply the saved diff instead
git apply -R /tmp/confirm_$ID.diff || { echo "cannot reverse the change"; exit 2; }
WITHOUT=$(timeout 300 go test -vet=off -count=1 -run 'TestDemo|TestZZDemo' $PKG 2>&1 | tail -1)
git apply /tmp/confirm_$ID.diff || { echo "cannot re-apply the change"; exit 2; }
echo "demo WITHOUT change: $WITHOUT"
case "$WITH" in FAIL*|*FAIL*) w=fail;; *) w=pass;; esac
case "$WITHOUT" in ok*) wo=pass;; *) wo=fail;; esac
if [ "$SUITE" = "0" ] && [ "$w" = "fail" ] && [ "$wo" = "pass" ]; then
  mkdir -p /verif/seeded/$ID
  cp /tmp/confirm_$ID.diff /verif/seeded/$ID/patch.diff
  cp "$DEMO" /verif/seeded/$ID/$(basename "$DEMO")
  echo "$DEMO" > /verif/seeded/$ID/demo_location.txt
  echo "CONFIRMED $ID -> /verif/seeded/$ID"
else
  echo "NOT CONFIRMED $ID (suite=$SUITE with=$w without=$wo)"
fi
