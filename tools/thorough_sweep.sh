#!/bin/sh
# thorough_sweep.sh <ids...>: run the thorough tier of each check with a time cap, one after another.
cd /verif
for c in "$@"; do
  start=$(date +%s)
  timeout ${CAP:-5400} bin/gosym check $c --tier thorough > work/thorough_$c.log 2>&1
  rc=$?
  echo "$(date +%H:%M) $c exit=$rc $(( $(date +%s) - start ))s inconclusive=$(grep -c INCONCLUSIVE work/thorough_$c.log) $(grep -h 'VIOLATION\|KNOWN-FINDING' work/thorough_$c.log | cut -c1-80 | tr '\n' ';') $(grep -o '[0-9]* jobs, [0-9]* paths, [0-9/]* obligations discharged' work/thorough_$c.log)" >> work/thorough_sweep.log
done
echo "$(date +%H:%M) sweep done: $*" >> work/thorough_sweep.log
