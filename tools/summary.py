#!/usr/bin/env python3
# summary.py: one markdown row per evidence file (tier, jobs, paths, obligations, solver, wall).
import json, glob
print("| Check | tier | jobs | paths | obligations discharged | solver queries (time) | cvc5 re-decided | wall | known findings |")
print("|---|---|---|---|---|---|---|---|---|")
for f in sorted(glob.glob('/verif/evidence/*.json')):
    d = json.load(open(f)); c = d['coverage']
    kf = c.get('known_findings_matched')
    kf = len(kf) if isinstance(kf, list) else (kf or 0)
    print("| %s | %s | %s | %s | %s/%s | %s (%.0f s) | %s | %.0f s | %s |" % (
        d['property_id'], d['tier'], c.get('jobs'), c.get('paths'), c.get('discharged'), c.get('obligations'),
        c.get('solver_queries'), c.get('solver_time_s', 0), c.get('second_solver_queries_compared'), d.get('wall_s', 0), kf))
