#!/bin/sh
# seedtest.sh <property id> <worktree with the change applied> [check ids...]
# Runs the quick tier of the given checks (default: the property's own) against a scratch
# worktree, without touching /repo or the committed evidence. Prints the verdict lines.
set -e
ID=$1; WT=$2; shift 2
CHECKS=${*:-$ID}
BIN=${GOSYM_BIN:-/verif/bin/gosym}
export GOFLAGS=-mod=mod GOPROXY=off GOSUMDB=off GOTOOLCHAIN=local VERIF_DIR=/verif
for c in $CHECKS; do
  GOSYM_REPO=$WT GOSYM_EVIDENCE=/tmp/seed_evidence GOSYM_WORK=/tmp/seed_work/$ID timeout 1500 $BIN check $c --tier quick > /tmp/seed_$ID_$c.log 2>&1 || true
  echo "== $ID against check $c: exit=$(tail -1 /tmp/seed_$ID_$c.log | grep -o 'exit [0-9]*' || echo '?')"
  grep "^VIOLATION\|^  signature\|^INCONCLUSIVE\|^KNOWN" /tmp/seed_$ID_$c.log | cut -c1-330 | head -12
done
